(** C05: the stale set computed by [_get_stale_nodes] is exactly the set of out-of-date nodes of a
    declarative specification that does not mention the algorithm's tables. *)
From Coq Require Import List Arith ZArith Bool Lia.
Import ListNotations.
From UJ Require Import Cache.Logical Cache.LogicalProofs.
Local Open Scope Z_scope.

Section Spec.
  Variables (reg : registry) (sg : sstate) (fresh : option Z) (p : plan).

  (** [upstream n m]: m is a registry node reachable backwards from n through nodes WITHOUT a value
      store only (any edge kind): the stored values / sources that n is directly built from. *)
  Inductive upstream : nat -> nat -> Prop :=
  | up_direct n nd m :
      nth_error p n = Some nd -> In m (preds_of nd) -> reg m <> None -> upstream n m
  | up_through n nd u m :
      nth_error p n = Some nd -> In u (preds_of nd) -> reg u = None -> upstream u m -> upstream n m.

  Definition time_of (m : nat) : option Z :=
    match reg m with Some e => mtime sg (store e) | None => None end.

  (** A registry node is up to date iff its value is present, everything it is built from is up to
      date and not newer than it, and - unless it is a source with nothing upstream - it is not
      older than fresh_time. *)
  Inductive utd : nat -> Prop :=
  | utd_intro n e t :
      reg n = Some e -> mtime sg (store e) = Some t ->
      (forall m, upstream n m -> utd m /\ exists tm, time_of m = Some tm /\ tm <= t) ->
      ((is_src e = false \/ exists m, upstream n m) -> gt_opt fresh t = false) ->
      utd n.

  Hypothesis wf : wf_plan p.
  Notation stl := (stl reg sg fresh p).
  Notation mt := (mt reg sg fresh p).

  (** the registry nodes whose times node j presents downstream *)
  Definition presents (j m : nat) : Prop :=
    (reg j <> None /\ m = j) \/ (reg j = None /\ upstream j m).

  Lemma upstream_iff n nd m :
    nth_error p n = Some nd -> (upstream n m <-> exists j, In j (preds_of nd) /\ presents j m).
  Proof.
    intros Hn. split.
    - intros H. inversion H; subst; rewrite Hn in *.
      + match goal with H1 : Some _ = Some _ |- _ => inversion H1; subst end.
        exists m. split; auto. left. auto.
      + match goal with H1 : Some _ = Some _ |- _ => inversion H1; subst end.
        exists u. split; auto. right. auto.
    - intros (j & Hj & [[Hr ->]|[Hr Hu]]).
      + eapply up_direct; eauto.
      + eapply up_through; eauto.
  Qed.

  Lemma upstream_reg n m : upstream n m -> reg m <> None.
  Proof. induction 1; auto. Qed.

  Lemma upstream_lt n m : upstream n m -> (m < n)%nat.
  Proof.
    induction 1 as [n nd m Hn Hin Hr|n nd u m Hn Hin Hr Hu IH].
    - eapply wf; eauto.
    - assert (u < n)%nat by (eapply wf; eauto). lia.
  Qed.

  (** unfolded step *)
  Lemma step_unfold i nd :
    nth_error p i = Some nd ->
    (stl i, mt i) =
    (if existsb stl (preds_of nd) then (true, None)
     else let ma := smax_list (map mt (preds_of nd)) in
          match reg i with
          | None => (false, ma)
          | Some e => match mtime sg (store e) with
                      | None => (true, None)
                      | Some t => if (is_some ma || negb (is_src e)) && (gt_opt ma t || gt_opt fresh t)
                                  then (true, None) else (false, Some t)
                      end
          end).
  Proof.
    intros Hi. pose proof (stale_fix reg sg fresh p wf i nd Hi) as H.
    unfold LogicalProofs.stl, LogicalProofs.mt. rewrite <- surjective_pairing. rewrite H. reflexivity.
  Qed.

  (** The invariant proved by strong induction on the node index. *)
  Definition Good (n : nat) : Prop :=
    (reg n <> None -> (stl n = false <-> utd n)) /\
    (reg n = None -> (stl n = true <-> exists m, upstream n m /\ stl m = true)) /\
    (stl n = false ->
       (forall x, gt_opt (mt n) x = true <-> exists m tm, presents n m /\ time_of m = Some tm /\ x < tm) /\
       (is_some (mt n) = true <-> exists m, presents n m) /\
       (forall m, presents n m -> stl m = false /\ exists tm, time_of m = Some tm)).

  Lemma existsb_stl_true l : existsb stl l = true <-> exists j, In j l /\ stl j = true.
  Proof. apply existsb_exists. Qed.

  Lemma good_step n nd :
    nth_error p n = Some nd -> (forall j, (j < n)%nat -> Good j) -> Good n.
  Proof.
    intros Hn IH. pose proof (step_unfold n nd Hn) as Hs.
    assert (Hlt : forall j, In j (preds_of nd) -> (j < n)%nat) by (intros; eapply wf; eauto).
    (* facts about predecessors when none of them is stale *)
    destruct (existsb stl (preds_of nd)) eqn:Eex.
    - (* some predecessor is stale *)
      inversion Hs as [[Hst Hmt]]. apply existsb_stl_true in Eex. destruct Eex as (j & Hj & Hjs).
      (* a stale registered node upstream *)
      assert (Hup : exists m, upstream n m /\ stl m = true).
      { destruct (reg j) eqn:Erj.
        - exists j. split; auto. eapply up_direct; eauto. congruence.
        - destruct (IH j (Hlt j Hj)) as (_ & Hb & _). destruct (proj1 (Hb Erj) Hjs) as (m & Hm & Hms).
          exists m. split; auto. eapply up_through; eauto. }
      split; [|split].
      + intros Hr. split; [congruence|]. intros Hu. exfalso. inversion Hu as [n' e t He Ht Hall Hf]; subst.
        destruct Hup as (m & Hm & Hms). destruct (Hall m Hm) as [Hum _].
        assert (Hrm : reg m <> None) by (eapply upstream_reg; eauto).
        destruct (IH m (upstream_lt _ _ Hm)) as (Ha & _). apply (Ha Hrm) in Hum. congruence.
      + intros _. split; auto.
      + congruence.
    - (* no stale predecessor *)
      cbv zeta in Hs.
      assert (Hns : forall j, In j (preds_of nd) -> stl j = false).
      { intros j Hj. destruct (stl j) eqn:E; auto. exfalso.
        assert (existsb stl (preds_of nd) = true) by (apply existsb_stl_true; eauto). congruence. }
      set (ma := smax_list (map mt (preds_of nd))) in *.
      assert (Hma_gt : forall x, gt_opt ma x = true <-> exists m tm, upstream n m /\ time_of m = Some tm /\ x < tm).
      { intros x. unfold ma. rewrite gt_opt_smax_list, existsb_exists. split.
        - intros (o & Ho & Hg). apply in_map_iff in Ho. destruct Ho as (j & <- & Hj).
          destruct (IH j (Hlt j Hj)) as (_ & _ & Hc). destruct (Hc (Hns j Hj)) as (Hc1 & _ & _).
          apply Hc1 in Hg. destruct Hg as (m & tm & Hp & Ht & Hx). exists m, tm. split; auto.
          apply (upstream_iff n nd m Hn). eauto.
        - intros (m & tm & Hu & Ht & Hx). apply (upstream_iff n nd m Hn) in Hu. destruct Hu as (j & Hj & Hp).
          exists (mt j). split; [apply in_map; auto|].
          destruct (IH j (Hlt j Hj)) as (_ & _ & Hc). destruct (Hc (Hns j Hj)) as (Hc1 & _ & _).
          apply Hc1. eauto. }
      assert (Hma_some : is_some ma = true <-> exists m, upstream n m).
      { unfold ma. rewrite is_some_smax_list, existsb_exists. split.
        - intros (o & Ho & Hg). apply in_map_iff in Ho. destruct Ho as (j & <- & Hj).
          destruct (IH j (Hlt j Hj)) as (_ & _ & Hc). destruct (Hc (Hns j Hj)) as (_ & Hc2 & _).
          apply Hc2 in Hg. destruct Hg as (m & Hp). exists m. apply (upstream_iff n nd m Hn). eauto.
        - intros (m & Hu). apply (upstream_iff n nd m Hn) in Hu. destruct Hu as (j & Hj & Hp).
          exists (mt j). split; [apply in_map; auto|].
          destruct (IH j (Hlt j Hj)) as (_ & _ & Hc). destruct (Hc (Hns j Hj)) as (_ & Hc2 & _).
          apply Hc2. eauto. }
      assert (Hup_ok : forall m, upstream n m -> stl m = false /\ exists tm, time_of m = Some tm).
      { intros m Hu. apply (upstream_iff n nd m Hn) in Hu. destruct Hu as (j & Hj & Hp).
        destruct (IH j (Hlt j Hj)) as (_ & _ & Hc). destruct (Hc (Hns j Hj)) as (_ & _ & Hc3). auto. }
      assert (Hup_reg : forall m, upstream n m -> reg m <> None) by (intros; eapply upstream_reg; eauto).
      destruct (reg n) as [e|] eqn:Ern; rewrite ?Ern in Hs.
      + (* registered *)
        destruct (mtime sg (store e)) as [t|] eqn:Et; rewrite ?Et in Hs.
        * destruct ((is_some ma || negb (is_src e)) && (gt_opt ma t || gt_opt fresh t)) eqn:Econd;
            rewrite ?Econd in Hs; inversion Hs as [[Hst Hmt]].
          -- (* stale by time *)
             split; [|split]; try congruence.
             intros _. split; [congruence|]. intros Hu. exfalso.
             inversion Hu as [n' e' t' He Ht Hall Hf]; subst. rewrite Ern in He. inversion He; subst e'.
             rewrite Et in Ht. inversion Ht; subst t'.
             apply andb_true_iff in Econd. destruct Econd as [Hc1 Hc2].
             assert (Hprem : is_src e = false \/ exists m, upstream n m).
             { apply orb_true_iff in Hc1. destruct Hc1 as [Hc1|Hc1].
               - right. apply Hma_some. exact Hc1.
               - left. apply negb_true_iff. exact Hc1. }
             apply orb_true_iff in Hc2. destruct Hc2 as [Hc2|Hc2].
             ++ apply Hma_gt in Hc2. destruct Hc2 as (m & tm & Hm & Htm & Hx).
                destruct (Hall m Hm) as (_ & tm' & Htm' & Hle). rewrite Htm in Htm'. inversion Htm'; subst. lia.
             ++ rewrite (Hf Hprem) in Hc2. discriminate.
          -- (* fresh enough *)
             split; [|split].
             ++ intros _. split; [|auto]. intros _. apply (utd_intro n e t Ern Et).
                ** intros m Hm. destruct (Hup_ok m Hm) as (Hms & tm & Htm). split.
                   --- destruct (IH m (upstream_lt _ _ Hm)) as (Ha & _). apply (Ha (Hup_reg m Hm)). exact Hms.
                   --- exists tm. split; auto. destruct (Z_le_gt_dec tm t) as [|Hgt]; auto. exfalso.
                       assert (Hg : gt_opt ma t = true) by (apply Hma_gt; exists m, tm; repeat split; auto; lia).
                       assert (Hsome : is_some ma = true) by (apply Hma_some; eauto).
                       rewrite Hg, Hsome in Econd. cbn in Econd. discriminate.
                ** intros Hprem. destruct (gt_opt fresh t) eqn:Ef; auto. exfalso.
                   assert (Hc1 : is_some ma || negb (is_src e) = true).
                   { destruct Hprem as [Hsrc|Hex].
                     - rewrite Hsrc. cbn. apply orb_true_r.
                     - rewrite (proj2 Hma_some Hex). reflexivity. }
                   rewrite Hc1, orb_true_r in Econd. discriminate.
             ++ congruence.
             ++ intros _. split; [|split].
                ** intros x. rewrite Hmt. cbn. split.
                   --- intros Hx. exists n, t. split; [left; split; [congruence|reflexivity]|].
                       split; [unfold time_of; rewrite Ern; exact Et|]. apply Z.ltb_lt. exact Hx.
                   --- intros (m & tm & [[_ ->]|[Hr _]] & Htm & Hx); [|congruence].
                       unfold time_of in Htm. rewrite Ern, Et in Htm. inversion Htm; subst. apply Z.ltb_lt. exact Hx.
                ** rewrite Hmt. cbn. split; auto. intros _. exists n. left. split; [congruence|reflexivity].
                ** intros m [[_ ->]|[Hr _]]; [|congruence]. split; [congruence|].
                   exists t. unfold time_of. rewrite Ern. exact Et.
        * (* missing *)
          inversion Hs as [[Hst Hmt]]. split; [|split]; try congruence.
          intros _. split; [congruence|]. intros Hu. inversion Hu as [n' e' t' He Ht Hall Hf]; subst.
          rewrite Ern in He. inversion He; subst. congruence.
      + (* no value store *)
        inversion Hs as [[Hst Hmt]]. split; [|split]; try congruence.
        * intros _. split; [congruence|]. intros (m & Hm & Hms). destruct (Hup_ok m Hm). congruence.
        * intros _. split; [|split].
          -- intros x. rewrite Hmt. rewrite Hma_gt. split.
             ++ intros (m & tm & Hm & Htm & Hx). exists m, tm. split; [right; auto|auto].
             ++ intros (m & tm & [[Hr _]|[_ Hm]] & Htm & Hx); [congruence|]. eauto.
          -- rewrite Hmt. rewrite Hma_some. split.
             ++ intros (m & Hm). exists m. right. auto.
             ++ intros (m & [[Hr _]|[_ Hm]]); [congruence|eauto].
          -- intros m [[Hr _]|[_ Hm]]; [congruence|]. apply Hup_ok. exact Hm.
  Qed.

  Theorem good_all n : (n < length p)%nat -> Good n.
  Proof.
    induction n as [n IH] using lt_wf_ind. intros Hn.
    destruct (nth_error p n) as [nd|] eqn:E; [|apply nth_error_None in E; lia].
    apply (good_step n nd E). intros j Hj. apply IH; lia.
  Qed.

  (** The stale set is exactly the out-of-date set. *)
  Theorem stale_iff_out_of_date n :
    (n < length p)%nat ->
    (reg n <> None -> (is_stale reg sg fresh p n = false <-> utd n)) /\
    (reg n = None -> (is_stale reg sg fresh p n = true <-> exists m, upstream n m /\ ~ utd m)).
  Proof.
    intros Hn. destruct (good_all n Hn) as (Ha & Hb & _). split; [exact Ha|].
    intros Hr. rewrite (Hb Hr). split; intros (m & Hm & H); exists m; split; auto.
    - assert (Hrm : reg m <> None) by (eapply upstream_reg; eauto).
      destruct (good_all m) as (Ham & _). { pose proof (upstream_lt _ _ Hm). lia. }
      intros Hu. apply (Ham Hrm) in Hu. unfold LogicalProofs.stl in *. congruence.
    - assert (Hrm : reg m <> None) by (eapply upstream_reg; eauto).
      destruct (good_all m) as (Ham & _). { pose proof (upstream_lt _ _ Hm). lia. }
      destruct (LogicalProofs.stl reg sg fresh p m) eqn:E; auto. exfalso. apply H. apply (Ham Hrm). reflexivity.
  Qed.
End Spec.

(** The stores rewritten by a run are exactly those of the out-of-date stored (non-source) nodes. *)
Theorem writes_exact reg sg fresh p n :
  wf_plan p -> (n < length p)%nat ->
  (is_written reg sg fresh p n = true <->
   exists e, reg n = Some e /\ is_src e = false /\ ~ utd reg sg fresh p n).
Proof.
  intros wf Hn. destruct (stale_iff_out_of_date reg sg fresh p wf n Hn) as [Ha _].
  unfold is_written, st_of. destruct (reg n) as [e|] eqn:Er.
  - assert (Hr : Some e <> None) by congruence. specialize (Ha Hr). split.
    + intros H. apply andb_true_iff in H. destruct H as [Hs Hsrc]. exists e. split; auto. split.
      * apply negb_true_iff. exact Hsrc.
      * intros Hu. apply Ha in Hu. congruence.
    + intros (e' & He & Hsrc & Hnu). inversion He; subst e'. rewrite Hsrc. cbn. rewrite andb_true_r.
      destruct (is_stale reg sg fresh p n) eqn:E; auto. exfalso. apply Hnu. apply Ha. reflexivity.
  - split; [discriminate|]. intros (e & He & _). discriminate.
Qed.
