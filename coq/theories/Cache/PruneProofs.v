(** Proofs about Cache/Prune.v: pruning keeps exactly the ancestors of the required/output nodes
    (up to elided literals), and neither drops nor invents a dependency between surviving nodes. *)
From Coq Require Import List Arith Bool Lia Permutation.
Import ListNotations.
From UJ Require Import Engine.Engine Base.Topo Base.TopoProofs Base.Graph Base.GraphProofs Cache.Prune.

(** * What every pruning step preserves *)
Record dep_equiv (p r : pgraph) : Prop := {
  de_kind : pkind r = pkind p;
  de_sub : forall n, In n (pnodes r) -> In n (pnodes p);
  (** no dependency between surviving nodes is dropped *)
  de_fwd : forall a b, In a (pnodes r) -> In b (pnodes r) ->
                       reach (to_graph p) a b -> reach (to_graph r) a b;
  (** none is invented *)
  de_bwd : forall a b, reach (to_graph r) a b -> reach (to_graph p) a b;
  (** any topological ranking of the input ranks the output *)
  de_rank : forall rank : nat -> nat,
      (forall a b, edge (to_graph p) a b -> rank a < rank b) ->
      (forall a b, edge (to_graph r) a b -> rank a < rank b);
  de_wf : pgraph_wf p -> pgraph_wf r
}.

Lemma dep_equiv_refl p : dep_equiv p p.
Proof. constructor; auto. Qed.

Lemma dep_equiv_trans p q r : dep_equiv p q -> dep_equiv q r -> dep_equiv p r.
Proof.
  intros [K1 S1 F1 B1 R1 W1] [K2 S2 F2 B2 R2 W2]. constructor.
  - congruence.
  - auto.
  - intros a b Ha Hb H. apply F2; auto.
  - auto.
  - intros rank H. apply R2. now apply R1.
  - auto.
Qed.

Lemma dep_equiv_acyclic p r : dep_equiv p r -> acyclic (to_graph p) -> acyclic (to_graph r).
Proof. intros D [rank H]. exists rank. now apply (de_rank p r D). Qed.

Lemma reach_mono (g g' : graph) a b :
  (forall x y, edge g x y -> reach g' x y) -> reach g a b -> reach g' a b.
Proof.
  intros H Hr. induction Hr as [a b Hab | a k b Hak IH Hkb]; [now apply H|].
  eapply reach_trans; [exact IH | now apply H].
Qed.

Lemma reach_has_pred g a b : reach g a b -> exists x, edge g x b.
Proof. intros H. destruct H as [a b H | a k b _ H]; eauto. Qed.

(** * restrict: keep a predecessor-closed set *)
Lemma restrict_nodes keep p n :
  In n (pnodes (restrict keep p)) <-> In n (pnodes p) /\ In n keep.
Proof.
  unfold restrict. rewrite remove_nodes_nodes, filter_In, negb_true_iff. split.
  - intros [Hn Hk]. split; [assumption|]. destruct (inb n keep) eqn:E; [now apply inb_In|].
    exfalso. apply Hk. now split.
  - intros [Hn Hk]. split; [assumption|]. intros [_ E]. apply inb_In in Hk. congruence.
Qed.

Lemma restrict_edge_sub keep p a b : edge (to_graph (restrict keep p)) a b -> edge (to_graph p) a b.
Proof. unfold restrict. rewrite remove_nodes_edge. tauto. Qed.

Lemma restrict_edge_intro keep p a b :
  edge (to_graph p) a b -> In a keep -> In b keep -> edge (to_graph (restrict keep p)) a b.
Proof.
  intros H Ha Hb. unfold restrict. rewrite remove_nodes_edge. split; [assumption|].
  split; intros Hin; apply filter_In in Hin; destruct Hin as [_ E]; apply negb_true_iff in E;
    [apply inb_In in Ha | apply inb_In in Hb]; congruence.
Qed.

Lemma restrict_dep_equiv keep p :
  (forall a b, edge (to_graph p) a b -> In b keep -> In a keep) ->
  dep_equiv p (restrict keep p).
Proof.
  intros Hcl. constructor.
  - unfold restrict. apply remove_nodes_kind.
  - intros n Hn. now apply restrict_nodes in Hn.
  - intros a b _ Hb Hr. apply restrict_nodes in Hb. destruct Hb as [_ Hb].
    induction Hr as [a b Hab | a k b Hak IH Hkb].
    + apply reach1. apply restrict_edge_intro; [assumption | now apply (Hcl a b) | assumption].
    + pose proof (Hcl k b Hkb Hb) as Hk. eapply reachS; [now apply IH|].
      now apply restrict_edge_intro.
  - intros a b. apply reach_mono. intros x y H. apply reach1. now apply restrict_edge_sub in H.
  - intros rank H a b Hab. apply H. now apply restrict_edge_sub in Hab.
  - unfold restrict. apply remove_nodes_wf.
Qed.

(** * elide: bypass one node *)
Lemma bypass_edges_In ps ss e :
  In e (bypass_edges ps ss) <-> In (esrc e) ps /\ In (edst e) ss /\ ekind e = KDep.
Proof.
  unfold bypass_edges. rewrite in_map_iff. split.
  - intros [[a b] [<- H]]. apply in_prod_iff in H. cbn. tauto.
  - intros [H1 [H2 H3]]. exists (esrc e, edst e). split.
    + destruct e as [s d k]. cbn in *. now subst.
    + now apply in_prod_iff.
Qed.

Lemma elide_nodes l p n : In n (pnodes (elide l p)) <-> In n (pnodes p) /\ n <> l.
Proof. unfold elide. now rewrite remove_node_nodes, add_edges_nodes. Qed.

Lemma elide_kind l p : pkind (elide l p) = pkind p.
Proof. unfold elide. now rewrite remove_node_kind, add_edges_kind. Qed.

Lemma elide_edge l p a b :
  edge (to_graph (elide l p)) a b <->
  a <> l /\ b <> l /\
  (edge (to_graph p) a b \/ (edge (to_graph p) a l /\ edge (to_graph p) l b)).
Proof.
  unfold elide. rewrite remove_node_edge, add_edges_edge. split.
  - intros [[H | [e [He [<- <-]]]] [Ha Hb]]; (split; [assumption|]; split; [assumption|]).
    + now left.
    + right. apply bypass_edges_In in He. destruct He as [H1 [H2 _]].
      rewrite ppreds_In in H1. rewrite psuccs_In in H2. now split.
  - intros [Ha [Hb [H | [H1 H2]]]]; (split; [|now split]).
    + now left.
    + right. exists {| esrc := a; edst := b; ekind := KDep |}. split; [|now split].
      apply bypass_edges_In. cbn [esrc edst ekind]. now rewrite ppreds_In, psuccs_In.
Qed.

Lemma elide_wf l p : pgraph_wf p -> pgraph_wf (elide l p).
Proof.
  intros Hwf. unfold elide. apply remove_node_wf, add_edges_wf; [assumption|].
  intros e He. apply bypass_edges_In in He. destruct He as [H1 [H2 _]].
  rewrite ppreds_In in H1. rewrite psuccs_In in H2.
  pose proof (to_graph_wf p Hwf) as [_ Hg]. split.
  - now apply (Hg (esrc e) l).
  - now apply (Hg l (edst e)).
Qed.

Lemma elide_reach_fwd l p a b :
  reach (to_graph p) a b -> a <> l -> b <> l -> reach (to_graph (elide l p)) a b.
Proof.
  intros Hr Ha.
  assert (H : (b <> l -> reach (to_graph (elide l p)) a b) /\
              (b = l -> forall y, edge (to_graph p) l y -> y <> l -> reach (to_graph (elide l p)) a y)).
  { induction Hr as [a b Hab | a k b Hak IH Hkb].
    - split.
      + intros Hb. apply reach1, elide_edge. auto.
      + intros -> y Hy Hyl. apply reach1, elide_edge. auto.
    - specialize (IH Ha). destruct IH as [IH1 IH2]. split.
      + intros Hb. destruct (Nat.eq_dec k l) as [-> | Hk].
        * now apply IH2.
        * eapply reachS; [now apply IH1|]. apply elide_edge. auto.
      + intros -> y Hy Hyl. destruct (Nat.eq_dec k l) as [-> | Hk].
        * now apply IH2.
        * eapply reachS; [now apply IH1|]. apply elide_edge. auto. }
  exact (proj1 H).
Qed.

Lemma elide_reach_bwd l p a b : reach (to_graph (elide l p)) a b -> reach (to_graph p) a b.
Proof.
  apply reach_mono. intros x y H. apply elide_edge in H. destruct H as [_ [_ [H | [H1 H2]]]].
  - now apply reach1.
  - eapply reachS; [apply reach1; exact H1 | exact H2].
Qed.

Lemma elide_dep_equiv l p : dep_equiv p (elide l p).
Proof.
  constructor.
  - apply elide_kind.
  - intros n Hn. now apply elide_nodes in Hn.
  - intros a b Ha Hb Hr. apply elide_nodes in Ha, Hb. apply elide_reach_fwd; tauto.
  - apply elide_reach_bwd.
  - intros rank H a b Hab. apply elide_edge in Hab. destruct Hab as [_ [_ [Hab | [H1 H2]]]].
    + now apply H.
    + specialize (H _ _ H1) as H1'. specialize (H _ _ H2) as H2'. lia.
  - apply elide_wf.
Qed.

(** * _prune_literal_if_trivial and the loop over literals *)
Lemma plt_cases p l : prune_literal_if_trivial p l = p \/ prune_literal_if_trivial p l = elide l p.
Proof.
  unfold prune_literal_if_trivial.
  destruct (negb (forallb (fun e => is_dep (ekind e)) (out_edges p l))); [now left|].
  destruct (length (ppreds p l) + length (psuccs p l) <? length (ppreds p l) * length (psuccs p l)); auto.
Qed.

(** when exactly the literal goes away *)
Definition trivial_literal (p : pgraph) (l : nat) : bool :=
  forallb (fun e => is_dep (ekind e)) (out_edges p l) &&
  (length (ppreds p l) * length (psuccs p l) <=? length (ppreds p l) + length (psuccs p l)).

Lemma plt_spec p l :
  prune_literal_if_trivial p l = if trivial_literal p l then elide l p else p.
Proof.
  unfold prune_literal_if_trivial, trivial_literal.
  destruct (forallb (fun e => is_dep (ekind e)) (out_edges p l)); cbn [negb andb]; [|reflexivity].
  rewrite Nat.ltb_antisym. now destruct (_ <=? _).
Qed.

(** [m * n <= m + n] spelled out: no predecessor or no successor, or one of each side is single,
    or two and two *)
Lemma trivial_sizes m n :
  (m * n <=? m + n) = true <-> m = 0 \/ n = 0 \/ m = 1 \/ n = 1 \/ (m = 2 /\ n = 2).
Proof.
  rewrite Nat.leb_le. split.
  - intros H. destruct m as [|[|[|m]]]; destruct n as [|[|[|n]]]; first [lia | exfalso; nia].
  - intros [-> | [-> | [-> | [-> | [-> ->]]]]]; lia.
Qed.

Lemma plt_dep_equiv p l : dep_equiv p (prune_literal_if_trivial p l).
Proof.
  destruct (plt_cases p l) as [-> | ->]; [apply dep_equiv_refl | apply elide_dep_equiv].
Qed.

Lemma plt_nodes_keep p l n : In n (pnodes p) -> n <> l -> In n (pnodes (prune_literal_if_trivial p l)).
Proof.
  intros Hn Hl. destruct (plt_cases p l) as [-> | ->]; [assumption | now apply elide_nodes].
Qed.

Lemma fold_plt_dep_equiv lits : forall p, dep_equiv p (fold_left prune_literal_if_trivial lits p).
Proof.
  induction lits as [|l lits IH]; intros p; cbn; [apply dep_equiv_refl|].
  eapply dep_equiv_trans; [apply plt_dep_equiv | apply IH].
Qed.

Lemma fold_plt_nodes_keep lits : forall p n,
  In n (pnodes p) -> ~ In n lits -> In n (pnodes (fold_left prune_literal_if_trivial lits p)).
Proof.
  induction lits as [|l lits IH]; intros p n Hn Hl; cbn; [assumption|].
  apply IH.
  - apply plt_nodes_keep; [assumption|]. intros ->. apply Hl. now left.
  - intros H. apply Hl. now right.
Qed.

(** * prune_plan *)
Lemma keep_closed p roots a b :
  edge (to_graph p) a b -> In b (all_ancestors (to_graph p) roots) -> In a (all_ancestors (to_graph p) roots).
Proof. apply ancestors_closed. Qed.

Theorem prune_dep_equiv p required output : dep_equiv p (prune_plan p required output).
Proof.
  unfold prune_plan. eapply dep_equiv_trans.
  - apply restrict_dep_equiv. intros a b. apply keep_closed.
  - apply fold_plt_dep_equiv.
Qed.

(** every surviving node is a node of the plan that is required / the output / an ancestor of one *)
Theorem prune_nodes_sound p required output n :
  In n (pnodes (prune_plan p required output)) ->
  In n (pnodes p) /\ anc_of (to_graph p) (prune_roots required output) n.
Proof.
  unfold prune_plan. intros H.
  apply (de_sub _ _ (fold_plt_dep_equiv _ _)) in H. apply restrict_nodes in H.
  destruct H as [Hn Hk]. split; [assumption|]. now apply ancestors_sound in Hk.
Qed.

(** every such node survives unless it is a Literal other than the output *)
Theorem prune_nodes_complete p required output n :
  In n (pnodes p) -> anc_of (to_graph p) (prune_roots required output) n ->
  is_lit p n = false \/ output = Some n ->
  In n (pnodes (prune_plan p required output)).
Proof.
  intros Hn Ha Hc. unfold prune_plan. apply fold_plt_nodes_keep.
  - apply restrict_nodes. split; [assumption|]. now apply ancestors_spec.
  - intros Hin. apply filter_In in Hin. destruct Hin as [_ Hin].
    apply andb_true_iff in Hin. destruct Hin as [Hl Ho].
    unfold is_lit in Hl. unfold restrict in Hl. rewrite remove_nodes_kind in Hl.
    destruct Hc as [Hc | ->].
    + unfold is_lit in Hc. congruence.
    + cbn in Ho. rewrite Nat.eqb_refl in Ho. discriminate.
Qed.

(** C04: the calls that are handed to the engine are exactly the calls of the plan that are
    required, the output, or an ancestor of one of them: nothing unneeded runs, everything needed is kept. *)
Theorem prune_keeps_exactly_ancestors p required output n :
  is_lit p n = false ->
  (In n (pnodes (prune_plan p required output)) <->
   In n (pnodes p) /\
   (In n (prune_roots required output) \/
    exists s, In s (prune_roots required output) /\ reach (to_graph p) n s)).
Proof.
  intros Hc. split.
  - apply prune_nodes_sound.
  - intros [Hn Ha]. apply prune_nodes_complete; auto.
Qed.

Theorem prune_keeps_output p required o :
  In o (pnodes p) -> In o (pnodes (prune_plan p required (Some o))).
Proof.
  intros Ho. apply prune_nodes_complete; [assumption | | now right].
  left. unfold prune_roots. apply in_or_app. right. now left.
Qed.

Lemma no_elem_nil {A} (l : list A) : (forall x, ~ In x l) -> l = [].
Proof. destruct l as [|a t]; [reflexivity|]. intros H. exfalso. apply (H a). now left. Qed.

(** C04: nothing required, no output: nothing survives *)
Theorem prune_none_empty p : pnodes (prune_plan p [] None) = [].
Proof.
  apply no_elem_nil. intros n Hn. apply prune_nodes_sound in Hn. destruct Hn as [_ Ha].
  cbn in Ha. destruct Ha as [[] | [s [[] _]]].
Qed.

Theorem prune_none_no_edges p : pgraph_wf p -> pedges (prune_plan p [] None) = [].
Proof.
  intros Hwf. apply no_elem_nil. intros e He.
  pose proof (de_wf _ _ (prune_dep_equiv p [] None) Hwf) as [_ [_ Hin]].
  specialize (Hin e He). rewrite prune_none_empty in Hin. now destruct Hin.
Qed.

(** C01: literal elision never drops a dependency between surviving nodes ... *)
Theorem prune_preserves_deps p required output a b :
  In a (pnodes (prune_plan p required output)) -> In b (pnodes (prune_plan p required output)) ->
  reach (to_graph p) a b -> reach (to_graph (prune_plan p required output)) a b.
Proof. apply (de_fwd _ _ (prune_dep_equiv p required output)). Qed.

(** ... and never invents one *)
Theorem prune_no_new_deps p required output a b :
  reach (to_graph (prune_plan p required output)) a b -> reach (to_graph p) a b.
Proof. apply (de_bwd _ _ (prune_dep_equiv p required output)). Qed.

Theorem prune_acyclic p required output :
  acyclic (to_graph p) -> acyclic (to_graph (prune_plan p required output)).
Proof. apply dep_equiv_acyclic, prune_dep_equiv. Qed.

Theorem prune_wf p required output : pgraph_wf p -> pgraph_wf (prune_plan p required output).
Proof. apply (de_wf _ _ (prune_dep_equiv p required output)). Qed.

Theorem prune_kind p required output : pkind (prune_plan p required output) = pkind p.
Proof. apply (de_kind _ _ (prune_dep_equiv p required output)). Qed.

(** Argument edges (PositionalArg / KeywordArg) of surviving nodes are untouched by prune_plan: a literal
    that is an argument of something is never elided, and the only edges added are Dependency edges. *)
Lemma plt_arg_edges_kept p l e :
  In e (pedges p) -> ekind e <> KDep -> In (edst e) (pnodes (prune_literal_if_trivial p l)) ->
  In e (pedges (prune_literal_if_trivial p l)).
Proof.
  intros He Hk Hd. rewrite plt_spec in *. destruct (trivial_literal p l) eqn:T; [|assumption].
  apply elide_nodes in Hd. destruct Hd as [_ Hd].
  unfold elide. apply remove_node_In. split; [apply add_edges_In; now right|]. split; [|assumption].
  intros Hs. unfold trivial_literal in T. apply andb_true_iff in T. destruct T as [T _].
  rewrite forallb_forall in T. assert (Ho : In e (out_edges p l)) by (apply out_edges_In; now split).
  specialize (T e Ho). destruct (ekind e); try discriminate. now apply Hk.
Qed.

Lemma plt_arg_edges_sub p l e :
  In e (pedges (prune_literal_if_trivial p l)) -> ekind e <> KDep -> In e (pedges p).
Proof.
  intros He Hk. destruct (plt_cases p l) as [E | E]; rewrite E in He; [assumption|].
  unfold elide in He. apply remove_node_In in He. destruct He as [He _].
  apply add_edges_In in He. destruct He as [He | He]; [|assumption].
  apply bypass_edges_In in He. destruct He as [_ [_ Hd]]. contradiction.
Qed.

Lemma fold_plt_arg_edges_kept lits : forall p e,
  In e (pedges p) -> ekind e <> KDep ->
  In (edst e) (pnodes (fold_left prune_literal_if_trivial lits p)) ->
  In e (pedges (fold_left prune_literal_if_trivial lits p)).
Proof.
  induction lits as [|l lits IH]; intros p e He Hk Hd; cbn in *; [assumption|].
  apply IH; try assumption. apply plt_arg_edges_kept; try assumption.
  now apply (de_sub _ _ (fold_plt_dep_equiv lits _)) in Hd.
Qed.

Lemma fold_plt_arg_edges_sub lits : forall p e,
  In e (pedges (fold_left prune_literal_if_trivial lits p)) -> ekind e <> KDep -> In e (pedges p).
Proof.
  induction lits as [|l lits IH]; intros p e He Hk; cbn in *; [assumption|].
  apply (plt_arg_edges_sub p l); [|assumption]. now apply IH.
Qed.

(** every argument edge into a surviving node survives, with its key *)
Theorem prune_arg_edges_kept p required output e :
  In e (pedges p) -> ekind e <> KDep ->
  In (edst e) (pnodes (prune_plan p required output)) ->
  In e (pedges (prune_plan p required output)).
Proof.
  intros He Hk Hd. unfold prune_plan in *. apply fold_plt_arg_edges_kept; try assumption.
  apply (de_sub _ _ (fold_plt_dep_equiv _ _)) in Hd. apply restrict_nodes in Hd. destruct Hd as [_ Hd].
  assert (Hs : In (esrc e) (all_ancestors (to_graph p) (prune_roots required output))).
  { apply (keep_closed p _ (esrc e) (edst e)); [now apply pedge_of_In | assumption]. }
  unfold restrict. apply remove_nodes_In. split; [assumption|].
  split; intros Hin; apply filter_In in Hin; destruct Hin as [_ E]; apply negb_true_iff in E;
    [apply inb_In in Hs | apply inb_In in Hd]; congruence.
Qed.

(** and pruning adds only Dependency edges *)
Theorem prune_arg_edges_sub p required output e :
  In e (pedges (prune_plan p required output)) -> ekind e <> KDep -> In e (pedges p).
Proof.
  intros He Hk. unfold prune_plan in He. apply fold_plt_arg_edges_sub in He; [|assumption].
  unfold restrict in He. apply remove_nodes_In in He. tauto.
Qed.

(** * prune_source_literals *)
Lemma source_literals_In p pred n :
  In n (source_literals p pred) <->
  In n (pnodes p) /\ is_lit p n = true /\ (forall x, ~ edge (to_graph p) x n) /\ pred n = true.
Proof.
  unfold source_literals. rewrite filter_In, !andb_true_iff, is_source_spec. tauto.
Qed.

Theorem psl_nodes p pred n :
  In n (pnodes (prune_source_literals p pred)) <->
  In n (pnodes p) /\ ~ (is_lit p n = true /\ (forall x, ~ edge (to_graph p) x n) /\ pred n = true).
Proof.
  unfold prune_source_literals. rewrite remove_nodes_nodes, source_literals_In. tauto.
Qed.

Theorem psl_dep_equiv p pred : dep_equiv p (prune_source_literals p pred).
Proof.
  unfold prune_source_literals. constructor.
  - apply remove_nodes_kind.
  - intros n Hn. now apply remove_nodes_nodes in Hn.
  - intros a b Ha Hb Hr. apply remove_nodes_nodes in Ha, Hb. destruct Ha as [_ Ha], Hb as [_ Hb].
    induction Hr as [a b Hab | a k b Hak IH Hkb].
    + apply reach1. now apply remove_nodes_edge.
    + assert (Hk : ~ In k (source_literals p pred)).
      { intros Hk. apply source_literals_In in Hk. destruct Hk as [_ [_ [Hk _]]].
        destruct (reach_has_pred _ _ _ Hak) as [x Hx]. exact (Hk x Hx). }
      eapply reachS; [now apply IH|]. now apply remove_nodes_edge.
  - intros a b. apply reach_mono. intros x y H. apply reach1. now apply remove_nodes_edge in H.
  - intros rank H a b Hab. apply H. now apply remove_nodes_edge in Hab.
  - apply remove_nodes_wf.
Qed.

(** only Literals go away: the calls are untouched *)
Theorem psl_calls_kept p pred n :
  is_lit p n = false -> (In n (pnodes (prune_source_literals p pred)) <-> In n (pnodes p)).
Proof. intros Hc. rewrite psl_nodes. split; [tauto|]. intros H. split; [assumption|]. intros [Hl _]. congruence. Qed.

Theorem psl_preserves_deps p pred a b :
  In a (pnodes (prune_source_literals p pred)) -> In b (pnodes (prune_source_literals p pred)) ->
  reach (to_graph p) a b -> reach (to_graph (prune_source_literals p pred)) a b.
Proof. apply (de_fwd _ _ (psl_dep_equiv p pred)). Qed.

Theorem psl_no_new_deps p pred a b :
  reach (to_graph (prune_source_literals p pred)) a b -> reach (to_graph p) a b.
Proof. apply (de_bwd _ _ (psl_dep_equiv p pred)). Qed.

Theorem psl_acyclic p pred : acyclic (to_graph p) -> acyclic (to_graph (prune_source_literals p pred)).
Proof. apply dep_equiv_acyclic, psl_dep_equiv. Qed.

(** the direct predecessors of a surviving node survive unless they are pruned source literals:
    the engine's predecessor count of a call only loses literal sources *)
Theorem psl_edges p pred a b :
  edge (to_graph (prune_source_literals p pred)) a b <->
  edge (to_graph p) a b /\ ~ In a (source_literals p pred).
Proof.
  unfold prune_source_literals. rewrite remove_nodes_edge. split; [tauto|].
  intros [H Ha]. split; [assumption|]. split; [assumption|].
  intros Hb. apply source_literals_In in Hb. destruct Hb as [_ [_ [Hb _]]]. exact (Hb a H).
Qed.

(** * The run graph of [run] without a registry *)
Theorem run_graph_dep_equiv p output : dep_equiv p (run_graph p output).
Proof.
  unfold run_graph. eapply dep_equiv_trans; [apply prune_dep_equiv | apply psl_dep_equiv].
Qed.

Theorem run_graph_calls p output n :
  is_lit p n = false ->
  (In n (pnodes (run_graph p output)) <->
   In n (pnodes p) /\ (output = Some n \/ exists o, output = Some o /\ reach (to_graph p) n o)).
Proof.
  intros Hc. unfold run_graph. rewrite psl_calls_kept.
  - rewrite prune_keeps_exactly_ancestors by assumption. unfold prune_roots. cbn [app].
    destruct output as [o|]; cbn.
    + split; intros [Hn H]; (split; [assumption|]).
      * destruct H as [[-> | []] | [s [[<- | []] Hr]]]; [now left | right; eauto].
      * destruct H as [H | [o' [H Hr]]]; inversion H; subst; [left; now left | right; eauto].
    + split; intros [Hn H]; exfalso.
      * destruct H as [[] | [s [[] _]]].
      * destruct H as [H | [o' [H _]]]; discriminate.
  - unfold is_lit in *. now rewrite prune_kind.
Qed.

Theorem run_graph_none_empty p : pnodes (run_graph p None) = [].
Proof.
  apply no_elem_nil. intros n Hn. unfold run_graph in Hn.
  apply (de_sub _ _ (psl_dep_equiv _ _)) in Hn. now rewrite prune_none_empty in Hn.
Qed.

Theorem run_graph_preserves_deps p output a b :
  In a (pnodes (run_graph p output)) -> In b (pnodes (run_graph p output)) ->
  reach (to_graph p) a b -> reach (to_graph (run_graph p output)) a b.
Proof. apply (de_fwd _ _ (run_graph_dep_equiv p output)). Qed.

Theorem run_graph_no_new_deps p output a b :
  reach (to_graph (run_graph p output)) a b -> reach (to_graph p) a b.
Proof. apply (de_bwd _ _ (run_graph_dep_equiv p output)). Qed.

Theorem run_graph_acyclic p output : acyclic (to_graph p) -> acyclic (to_graph (run_graph p output)).
Proof. apply dep_equiv_acyclic, run_graph_dep_equiv. Qed.

Theorem run_graph_wf p output : pgraph_wf p -> graph_wf (to_graph (run_graph p output)).
Proof. intros H. apply to_graph_wf. now apply (de_wf _ _ (run_graph_dep_equiv p output)). Qed.

(** * Non-vacuity: a plan with a call -> literal -> call chain (Dep edges), a literal argument, a parallel
    pair of edges and an unneeded call.
    nodes: 0 = lit (arg of 1), 1 = call, 2 = lit with predecessor 1 (Dep) and successor 3 (Dep),
           3 = call(output) with Pos 0 from 1 and Kw from 1 (parallel), 4 = unneeded call depending on 3 *)
Definition ex_plan : pgraph := {|
  pnodes := [0; 1; 2; 3; 4];
  pkind := fun n => match n with 0 | 2 => KLit | _ => KCall end;
  pedges := [ {| esrc := 0; edst := 1; ekind := KPos 0 |};
              {| esrc := 1; edst := 2; ekind := KDep |};
              {| esrc := 2; edst := 3; ekind := KDep |};
              {| esrc := 1; edst := 3; ekind := KPos 0 |};
              {| esrc := 1; edst := 3; ekind := KKw 7 0 |};
              {| esrc := 3; edst := 4; ekind := KDep |} ]
|}.

Example ex_prune_nodes : pnodes (prune_plan ex_plan [] (Some 3)) = [0; 1; 3].
Proof. vm_compute. reflexivity. Qed.
Example ex_prune_edges :
  pedges (prune_plan ex_plan [] (Some 3)) =
  [ {| esrc := 0; edst := 1; ekind := KPos 0 |};
    {| esrc := 1; edst := 3; ekind := KPos 0 |};
    {| esrc := 1; edst := 3; ekind := KKw 7 0 |};
    {| esrc := 1; edst := 3; ekind := KDep |} ].
Proof. vm_compute. reflexivity. Qed.
Example ex_run_graph_nodes : pnodes (run_graph ex_plan (Some 3)) = [1; 3].
Proof. vm_compute. reflexivity. Qed.
Example ex_prune_none : pnodes (prune_plan ex_plan [] None) = [].
Proof. vm_compute. reflexivity. Qed.
Example ex_reach_kept : reach (to_graph (run_graph ex_plan (Some 3))) 1 3.
Proof.
  apply run_graph_preserves_deps; try (vm_compute; tauto).
  eapply reachS; [apply reach1|]; unfold edge; cbn; tauto.
Qed.
(** a literal with 3 predecessors and 2 successors (3*2 > 3+2) stays *)
Definition ex_fat : pgraph := {|
  pnodes := [0; 1; 2; 3; 4; 5];
  pkind := fun n => match n with 3 => KLit | _ => KCall end;
  pedges := [ {| esrc := 0; edst := 3; ekind := KDep |}; {| esrc := 1; edst := 3; ekind := KDep |};
              {| esrc := 2; edst := 3; ekind := KDep |}; {| esrc := 3; edst := 4; ekind := KDep |};
              {| esrc := 3; edst := 5; ekind := KDep |} ]
|}.
Example ex_fat_kept : pnodes (prune_plan ex_fat [4; 5] None) = [0; 1; 2; 3; 4; 5].
Proof. vm_compute. reflexivity. Qed.
