(** After a run, whatever was (re)written together with everything upstream of it is up to date:
    a repeated run does nothing (C05), and values completely written before a cut are not rebuilt
    by the next run (C08). *)
From Coq Require Import List Arith ZArith Bool Lia.
Import ListNotations.
From UJ Require Import Cache.Logical Cache.LogicalProofs Cache.RunProofs Cache.HistoryProofs.
Local Open Scope Z_scope.

Section Settle.
  Variable F : nat -> list Z -> Z.
  Variables (reg : registry) (p : plan).
  Hypothesis wf : wf_plan p.
  Hypothesis inj : reg_inj reg.
  Hypothesis dom : reg_dom reg p.
  Variables (sg : sstate) (fresh : option Z) (tw : nat -> Z) (w : nat -> bool).

  Notation stl1 := (stl reg sg fresh p).
  Notation mt1 := (mt reg sg fresh p).
  Let sg2 := after_cut F reg sg fresh p tw w.
  Notation stl2 := (stl reg sg2 fresh p).
  Notation mt2 := (mt reg sg2 fresh p).

  (** H-clock for the run: writes are newer than everything stored before, a value is written after the
      values it depends on, and fresh_time is not in the future of the writes *)
  Hypothesis Htw_ok : tw_ok sg tw.
  Hypothesis Htw_dep : forall i j, down p i j -> tw i < tw j.
  Hypothesis Hfresh : forall n, gt_opt fresh (tw n) = false.
  (** the writes that took effect had a value to write (the run got that far) *)
  Hypothesis Hval : forall m, is_written reg sg fresh p m = true -> w m = true ->
                              value_of F reg sg fresh p m <> None.

  Definition settled_cond (m : nat) : Prop :=
    (is_written reg sg fresh p m = true -> w m = true) /\
    (forall e, reg m = Some e -> is_src e = true -> stl1 m = false).

  Lemma mtime2_written m e :
    reg m = Some e -> is_written reg sg fresh p m = true -> w m = true -> mtime sg2 (store e) = Some (tw m).
  Proof.
    intros Hr Hw Hwm. unfold mtime, sg2. rewrite (after_cut_written F reg p inj dom sg fresh tw w m e Hr Hw Hwm).
    destruct (value_of F reg sg fresh p m) eqn:E; [reflexivity|]. exfalso. eapply Hval; eauto.
  Qed.

  Lemma mtime2_untouched m e :
    reg m = Some e -> is_written reg sg fresh p m && w m = false -> mtime sg2 (store e) = mtime sg (store e).
  Proof.
    intros Hr Hw. unfold mtime, sg2. rewrite (after_cut_untouched F reg p dom); auto.
    intros m' e' Hr' Hst. assert (m' = m) by (eapply inj; eauto). subst. exact Hw.
  Qed.

  Lemma settle n :
    (forall m, m = n \/ down p m n -> settled_cond m) ->
    stl2 n = false /\
    (forall x, gt_opt (mt2 n) x = true -> x < tw n) /\
    (stl1 n = false -> mt2 n = mt1 n).
  Proof.
    induction n as [n IH] using lt_wf_ind. intros Hc.
    destruct (nth_error p n) as [nd|] eqn:Hn.
    2:{ apply nth_error_None in Hn. unfold stl, mt. rewrite !slook_out by auto. cbn. repeat split; auto; discriminate. }
    pose proof (step_unfold reg p wf sg fresh n nd Hn) as H1.
    pose proof (step_unfold reg p wf sg2 fresh n nd Hn) as H2.
    assert (Hlt : forall j, In j (preds_of nd) -> (j < n)%nat) by (intros; eapply wf; eauto).
    assert (Hpred : forall j, In j (preds_of nd) ->
              stl2 j = false /\ (forall x, gt_opt (mt2 j) x = true -> x < tw j) /\ (stl1 j = false -> mt2 j = mt1 j)).
    { intros j Hj. apply (IH j (Hlt j Hj)). intros m [->|Hd]; apply Hc; right.
      - eapply down_direct; eauto.
      - eapply down_step; eauto. }
    assert (E2 : existsb stl2 (preds_of nd) = false).
    { apply not_true_iff_false. intros H. apply existsb_exists in H. destruct H as (j & Hj & Hjs).
      destruct (Hpred j Hj) as [Hs _]. congruence. }
    try rewrite E2 in H2. cbv zeta in H2.
    set (ma2 := smax_list (map mt2 (preds_of nd))) in *.
    assert (Hbound : forall x, gt_opt ma2 x = true -> x < tw n).
    { intros x Hx. unfold ma2 in Hx. rewrite gt_opt_smax_list in Hx. apply existsb_exists in Hx.
      destruct Hx as (o & Ho & Hg). apply in_map_iff in Ho. destruct Ho as (j & <- & Hj).
      destruct (Hpred j Hj) as (_ & Hb & _). specialize (Hb x Hg).
      assert (tw j < tw n) by (apply Htw_dep; eapply down_direct; eauto). lia. }
    (* when n is fresh in sg its predecessors are, and ma2 = ma1 *)
    assert (Hsame : stl1 n = false -> existsb stl1 (preds_of nd) = false /\
                                      ma2 = smax_list (map mt1 (preds_of nd))).
    { intros Hs. destruct (existsb stl1 (preds_of nd)) eqn:E1.
      - try rewrite E1 in H1. injection H1 as Hs1 _. congruence.
      - split; auto. unfold ma2. f_equal. apply map_ext_in. intros j Hj.
        destruct (Hpred j Hj) as (_ & _ & Hm). apply Hm. apply (existsb_false _ _ E1 j Hj). }
    destruct (Hc n (or_introl eq_refl)) as [Hcw Hcs].
    destruct (reg n) as [e|] eqn:Er.
    - (* registry node *)
      destruct (is_written reg sg fresh p n && w n) eqn:Eww.
      + (* rewritten *)
        apply andb_true_iff in Eww. destruct Eww as [Ew Ewn].
        rewrite (mtime2_written n e Er Ew Ewn) in H2.
        assert (Hst1 : stl1 n = true /\ is_src e = false).
        { unfold is_written in Ew. rewrite Er in Ew. apply andb_true_iff in Ew. destruct Ew as [A B].
          split; [exact A|]. apply negb_true_iff. exact B. }
        destruct Hst1 as [Hst1 Hsrc].
        assert (Ec : (is_some ma2 || negb (is_src e)) && (gt_opt ma2 (tw n) || gt_opt fresh (tw n)) = false).
        { apply andb_false_iff. right. apply orb_false_iff. split; [|apply Hfresh].
          destruct (gt_opt ma2 (tw n)) eqn:Eg; auto. apply Hbound in Eg. lia. }
        rewrite Ec in H2. injection H2 as Hs2 Hm2. split; [exact Hs2|]. split.
        * intros x Hx. rewrite Hm2 in Hx. cbn in Hx. apply Z.ltb_lt. exact Hx.
        * congruence.
      + (* store untouched *)
        rewrite (mtime2_untouched n e Er Eww) in H2.
        assert (Hs1 : stl1 n = false).
        { destruct (is_src e) eqn:Es; [apply (Hcs e eq_refl Es)|].
          destruct (stl1 n) eqn:E; auto. exfalso.
          assert (Ew : is_written reg sg fresh p n = true).
          { unfold is_written, st_of. rewrite Er, Es. cbn [negb]. rewrite andb_true_r. exact E. }
          rewrite Ew, (Hcw Ew) in Eww. discriminate. }
        destruct (Hsame Hs1) as [E1 Ema]. try rewrite E1 in H1. cbv zeta in H1. try rewrite <- Ema in H1.
        destruct (mtime sg (store e)) as [t|] eqn:Et.
        * destruct ((is_some ma2 || negb (is_src e)) && (gt_opt ma2 t || gt_opt fresh t)) eqn:Ec.
          -- injection H1 as A _. congruence.
          -- injection H1 as A B. injection H2 as A2 B2. split; [exact A2|]. split; [|congruence].
             intros x Hx. rewrite B2 in Hx. cbn in Hx. apply Z.ltb_lt in Hx. pose proof (Htw_ok n _ _ Et). lia.
        * injection H1 as A _. congruence.
    - (* no value store *)
      injection H2 as A2 B2. split; [exact A2|]. split.
      + intros x Hx. rewrite B2 in Hx. apply Hbound. exact Hx.
      + intros Hs1. destruct (Hsame Hs1) as [E1 Ema]. try rewrite E1 in H1. cbv zeta in H1. injection H1 as _ B1. congruence.
  Qed.
End Settle.

(** * nothing is stale => a run with no output does nothing *)
Section Idle.
  Variables (reg : registry) (st : nat -> bool).
  Hypothesis Hst : forall i, st i = false.

  Lemma any_consumer_false sel which i rest later :
    (forall e, In e later -> sel e = false) -> any_consumer sel which i rest later = false.
  Proof.
    revert later. induction rest as [|c rest IH]; intros [|e later] H; cbn; auto.
    rewrite (H e) by (left; auto). rewrite andb_false_r. cbn. apply IH. intros e' He'. apply H. right; auto.
  Qed.

  Lemma need_table_idle p : forall i e, In e (need_table reg st None i p) -> e = (false, false).
  Proof.
    induction p as [|nd rest IH]; intros i e He; cbn in He; [destruct He|].
    destruct He as [<-|He]; [|eapply IH; eauto].
    unfold need_step. destruct (reg i) as [re|].
    - rewrite Hst. reflexivity.
    - cbn. rewrite any_consumer_false; auto. intros e' He'. rewrite (IH (S i) e' He'). reflexivity.
  Qed.

  Lemma read_table_idle p : forall i nt, (forall e, In e nt -> e = (false, false)) ->
    forall b, In b (read_table reg None i p nt) -> b = false.
  Proof.
    induction p as [|nd rest IH]; intros i nt Hnt b Hb; cbn in Hb; [destruct Hb|].
    destruct nt as [|e later]; [destruct Hb|]. destruct Hb as [<-|Hb].
    - destruct (reg i); auto. cbn. apply any_consumer_false. intros e' He'. rewrite (Hnt e') by (right; auto). reflexivity.
    - eapply IH; [|exact Hb]. intros e' He'. apply Hnt. right; auto.
  Qed.
End Idle.

Lemma nth_all {A} (l : list A) (P : A -> Prop) d i : P d -> (forall x, In x l -> P x) -> P (nth i l d).
Proof.
  intros Hd H. destruct (nth_in_or_default i l d) as [Hin| ->]; auto.
Qed.

Section Idempotent.
  Variable F : nat -> list Z -> Z.
  Variables (reg : registry) (p : plan).
  Hypothesis wf : wf_plan p.
  Hypothesis inj : reg_inj reg.
  Hypothesis dom : reg_dom reg p.

  (** C05: a run repeated immediately after a complete one, with no output requested, performs no
      call, no read and no write - provided no source was out of date (a missing source, or a dependent
      source that nothing refreshes, stays out of date and keeps its dependents out of date). *)
  Theorem repeated_run_does_nothing sg fresh tw :
    tw_ok sg tw -> (forall i j, down p i j -> tw i < tw j) -> (forall n, gt_opt fresh (tw n) = false) ->
    (forall m, is_written reg sg fresh p m = true -> value_of F reg sg fresh p m <> None) ->
    (forall m e, reg m = Some e -> is_src e = true -> is_stale reg sg fresh p m = false) ->
    let sg' := after_run F reg sg fresh p tw in
    forall n, is_stale reg sg' fresh p n = false /\
              is_written reg sg' fresh p n = false /\
              is_exec reg sg' fresh None p n = false /\
              is_read reg sg' fresh None p n = false.
  Proof.
    intros Htw Hdep Hfr Hval Hsrc sg'.
    assert (Hst : forall n, is_stale reg sg' fresh p n = false).
    { intros n. apply (settle F reg p wf inj dom sg fresh tw (fun _ => true) Htw Hdep Hfr).
      - intros m Hw _. apply Hval. exact Hw.
      - intros m _. split; [reflexivity|]. intros e Hr Hs. apply (Hsrc m e Hr Hs). }
    intros n. split; [apply Hst|]. split; [|split].
    - unfold is_written. destruct (reg n); auto. rewrite Hst. reflexivity.
    - unfold is_exec. destruct (nth_error p n); auto. unfold active, needs.
      apply (nth_all _ (fun e => is_call n0 && snd e = false) (false, false) n); [apply andb_false_r|].
      intros e He. rewrite (need_table_idle reg (st_of reg sg' fresh p) Hst p 0%nat e He). apply andb_false_r.
    - unfold is_read, reads_tbl. apply (nth_all _ (fun b => b = false) false n); auto.
      apply read_table_idle. intros e He. apply (need_table_idle reg (st_of reg sg' fresh p) Hst p 0%nat e He).
  Qed.

  (** C08: a value completely written before the cut, whose upstream writes also completed, is not
      rebuilt by the next run with the same fresh_time. *)
  Theorem no_needless_rebuild sg fresh tw w n :
    tw_ok sg tw -> (forall i j, down p i j -> tw i < tw j) -> (forall m, gt_opt fresh (tw m) = false) ->
    (forall m, is_written reg sg fresh p m = true -> w m = true -> value_of F reg sg fresh p m <> None) ->
    (forall m, m = n \/ down p m n ->
       (is_written reg sg fresh p m = true -> w m = true) /\
       (forall e, reg m = Some e -> is_src e = true -> is_stale reg sg fresh p m = false)) ->
    is_stale reg (after_cut F reg sg fresh p tw w) fresh p n = false.
  Proof.
    intros Htw Hdep Hfr Hval Hc.
    apply (settle F reg p wf inj dom sg fresh tw w Htw Hdep Hfr Hval n). exact Hc.
  Qed.
End Idempotent.
