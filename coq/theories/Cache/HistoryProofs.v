(** C03 / C08 over histories: the invariant [Inv] survives complete runs, runs cut short after any
    subset of their writes, source updates and deletions of stored values. *)
From Coq Require Import List Arith ZArith Bool Lia.
Import ListNotations.
From UJ Require Import Cache.Logical Cache.LogicalProofs Cache.RunProofs.
Local Open Scope Z_scope.

Lemma gt_opt_is_some o x : gt_opt o x = true -> is_some o = true.
Proof. destruct o; cbn; congruence. Qed.

Section Hist.
  Variable F : nat -> list Z -> Z.
  Variables (reg : registry) (p : plan).
  Hypothesis wf : wf_plan p.
  Hypothesis inj : reg_inj reg.
  Hypothesis dom : reg_dom reg p.

  Notation stl0 sg := (stl reg sg None p).
  Notation mt0 sg := (mt reg sg None p).
  Notation Inv := (Inv F reg p).

  (** a time newer than everything in [sg] *)
  Definition newer (sg : sstate) (T : Z) : Prop := forall s t, mtime sg s = Some t -> t < T.
  Definition big (sg : sstate) (o : option Z) : Prop := forall s t, mtime sg s = Some t -> gt_opt o t = true.

  (** H-clock: every store is unchanged, emptied, or rewritten at a time newer than everything before *)
  Definition evolves (sg sg' : sstate) : Prop :=
    forall s, sg' s = sg s \/ sg' s = None \/ exists v T, sg' s = Some (v, T) /\ newer sg T.

  Lemma big_some sg T : newer sg T -> big sg (Some T).
  Proof. intros H s t Hs. cbn. apply Z.ltb_lt. eauto. Qed.

  Lemma big_smax_list sg l o : In o l -> big sg o -> big sg (smax_list l).
  Proof.
    intros Hin Hb s t Hs. rewrite gt_opt_smax_list. apply existsb_exists. exists o. split; auto. eapply Hb; eauto.
  Qed.

  Lemma existsb_false {A} (f : A -> bool) l : existsb f l = false -> forall x, In x l -> f x = false.
  Proof.
    intros H x Hx. destruct (f x) eqn:E; auto.
    assert (existsb f l = true) by (apply existsb_exists; eauto). congruence.
  Qed.

  (** * staleness persists (or the node presents a newer time) when stores evolve *)
  Lemma persist sg sg' : evolves sg sg' -> forall n,
    (stl0 sg n = true -> stl0 sg' n = true \/ big sg (mt0 sg' n)) /\
    (stl0 sg n = false -> stl0 sg' n = true \/
                          forall x, gt_opt (mt0 sg n) x = true -> gt_opt (mt0 sg' n) x = true).
  Proof.
    intros Hev n. induction n as [n IH] using lt_wf_ind.
    destruct (nth_error p n) as [nd|] eqn:Hn.
    2:{ apply nth_error_None in Hn. unfold stl, mt. rewrite !slook_out by auto. cbn. split; [congruence|auto]. }
    pose proof (step_unfold reg p wf sg None n nd Hn) as H1.
    pose proof (step_unfold reg p wf sg' None n nd Hn) as H2.
    assert (Hlt : forall j, In j (preds_of nd) -> (j < n)%nat) by (intros; eapply wf; eauto).
    destruct (existsb (stl0 sg') (preds_of nd)) eqn:E2; try rewrite E2 in H2.
    { injection H2 as Hs2 Hm2. split; intros _; left; exact Hs2. }
    pose proof (existsb_false _ _ E2) as Hns2. cbv zeta in H2.
    set (ma2 := smax_list (map (mt0 sg') (preds_of nd))) in *.
    (* a stale predecessor in sg makes ma2 big *)
    assert (Hbig : forall j, In j (preds_of nd) -> stl0 sg j = true -> big sg ma2).
    { intros j Hj Hjs. destruct (IH j (Hlt j Hj)) as [Hq _]. destruct (Hq Hjs) as [Hc|Hb].
      - rewrite (Hns2 j Hj) in Hc. discriminate.
      - unfold ma2. eapply big_smax_list; [|exact Hb]. apply in_map. exact Hj. }
    (* a fresh predecessor's time is carried over *)
    assert (Hcarry : forall j x, In j (preds_of nd) -> stl0 sg j = false ->
                                 gt_opt (mt0 sg j) x = true -> gt_opt ma2 x = true).
    { intros j x Hj Hjs Hg. destruct (IH j (Hlt j Hj)) as [_ Hr]. destruct (Hr Hjs) as [Hc|Hc].
      - rewrite (Hns2 j Hj) in Hc. discriminate.
      - unfold ma2. rewrite gt_opt_smax_list. apply existsb_exists. exists (mt0 sg' j). split; [apply in_map; auto|auto]. }
    destruct (existsb (stl0 sg) (preds_of nd)) eqn:E1; try rewrite E1 in H1.
    - (* stale predecessor in sg *)
      injection H1 as Hs1 Hm1. apply existsb_exists in E1. destruct E1 as (j & Hj & Hjs).
      pose proof (Hbig j Hj Hjs) as Hb. split; [|congruence]. intros _.
      destruct (reg n) as [e|] eqn:Er; try rewrite Er in H2; try rewrite Er in H1.
      + destruct (mtime sg' (store e)) as [t2|] eqn:Et2; try rewrite Et2 in H2.
        * destruct ((is_some ma2 || negb (is_src e)) && (gt_opt ma2 t2 || gt_opt None t2)) eqn:Ec;
            try rewrite Ec in H2; injection H2 as Hs2 Hm2; auto.
          right. destruct (Hev (store e)) as [Hu|[Hu|(v & T & Hu & HT)]].
          -- (* store unchanged: its old time is below the big ma2: contradiction with Ec *)
             exfalso. assert (Hold : mtime sg (store e) = Some t2) by (unfold mtime in *; rewrite <- Hu; exact Et2).
             pose proof (Hb _ _ Hold) as Hg. rewrite Hg, (gt_opt_is_some _ _ Hg) in Ec. cbn in Ec. discriminate.
          -- unfold mtime in Et2. rewrite Hu in Et2. discriminate.
          -- unfold mtime in Et2. rewrite Hu in Et2. cbn in Et2. inversion Et2; subst. rewrite Hm2. apply big_some. exact HT.
        * injection H2 as Hs2 Hm2. auto.
      + injection H2 as Hs2 Hm2. right. rewrite Hm2. exact Hb.
    - (* no stale predecessor in sg *)
      pose proof (existsb_false _ _ E1) as Hns1. cbv zeta in H1.
      set (ma1 := smax_list (map (mt0 sg) (preds_of nd))) in *.
      assert (Hma : forall x, gt_opt ma1 x = true -> gt_opt ma2 x = true).
      { intros x Hx. unfold ma1 in Hx. rewrite gt_opt_smax_list in Hx. apply existsb_exists in Hx.
        destruct Hx as (o & Ho & Hg). apply in_map_iff in Ho. destruct Ho as (j & <- & Hj).
        eapply Hcarry; eauto. }
      destruct (reg n) as [e|] eqn:Er; try rewrite Er in H2; try rewrite Er in H1.
      + destruct (mtime sg' (store e)) as [t2|] eqn:Et2; try rewrite Et2 in H2.
        2:{ injection H2 as Hs2 Hm2. split; auto. }
        destruct ((is_some ma2 || negb (is_src e)) && (gt_opt ma2 t2 || gt_opt None t2)) eqn:Ec;
          try rewrite Ec in H2; injection H2 as Hs2 Hm2; [split; auto|].
        cbn [gt_opt] in Ec. rewrite orb_false_r in Ec.
        destruct (Hev (store e)) as [Hu|[Hu|(v & T & Hu & HT)]].
        * (* unchanged *)
          assert (Hold : mtime sg (store e) = Some t2) by (unfold mtime in *; rewrite <- Hu; exact Et2).
          rewrite Hold in H1. cbn [gt_opt] in H1. rewrite orb_false_r in H1.
          destruct ((is_some ma1 || negb (is_src e)) && gt_opt ma1 t2) eqn:Ec1; try rewrite Ec1 in H1; injection H1 as Hs1 Hm1.
          -- (* stale by time in sg: still so in sg' *)
             exfalso. apply andb_true_iff in Ec1. destruct Ec1 as [_ Hg]. apply Hma in Hg.
             rewrite Hg, (gt_opt_is_some _ _ Hg) in Ec. cbn in Ec. discriminate.
          -- split; [congruence|]. intros _. right. intros x Hx. rewrite Hm2. rewrite Hm1 in Hx. exact Hx.
        * unfold mtime in Et2. rewrite Hu in Et2. discriminate.
        * (* rewritten at a newer time *)
          unfold mtime in Et2. rewrite Hu in Et2. cbn in Et2. inversion Et2; subst t2.
          split.
          -- intros _. right. rewrite Hm2. apply big_some. exact HT.
          -- intros Hs1. right. intros x Hx.
             destruct (mtime sg (store e)) as [t1|] eqn:Et1; try rewrite Et1 in H1.
             ++ cbn [gt_opt] in H1. rewrite orb_false_r in H1.
                destruct ((is_some ma1 || negb (is_src e)) && gt_opt ma1 t1) eqn:Ec1; try rewrite Ec1 in H1; inversion H1 as [[Hs1' Hm1]]; [congruence|].
                rewrite Hm1 in Hx. cbn in Hx. apply Z.ltb_lt in Hx. rewrite Hm2. cbn. apply Z.ltb_lt.
                pose proof (HT _ _ Et1). lia.
             ++ injection H1 as Hs1' Hm1. congruence.
      + injection H1 as Hs1 Hm1. injection H2 as Hs2 Hm2. split; [congruence|].
        intros _. right. intros x Hx. rewrite Hm2. rewrite Hm1 in Hx. apply Hma. exact Hx.
  Qed.

  (** * general preservation of the invariant *)
  Theorem inv_evolves sg sg' :
    Inv sg -> evolves sg sg' ->
    (forall n e, reg n = Some e -> is_src e = false ->
       (sg' (store e) = sg (store e) /\
        (stl0 sg' n = false -> scratch F reg sg' p n = scratch F reg sg p n)) \/
       sg' (store e) = None \/
       content sg' (store e) = scratch F reg sg' p n) ->
    Inv sg'.
  Proof.
    intros I Hev Hst n e Hr Hs Hfresh. change (stl0 sg' n = false) in Hfresh.
    destruct (Hst n e Hr Hs) as [[Hu Hscr]|[Hd|Hw]]; [| |exact Hw].
    - (* store unchanged: n was not stale before either *)
      unfold content. rewrite Hu. rewrite (Hscr Hfresh). apply (I n e Hr Hs).
      change (stl0 sg n = false). destruct (stl0 sg n) eqn:E; auto. exfalso.
      destruct (persist sg sg' Hev n) as [Hq _]. destruct (Hq E) as [Hc|Hb]; [congruence|].
      (* n fresh in sg' with its old time t: big (Some t) is impossible *)
      assert (Hn : (n < length p)%nat) by (eapply dom; eauto).
      destruct (nth_error p n) as [nd|] eqn:Hnd; [|apply nth_error_None in Hnd; lia].
      pose proof (step_unfold reg p wf sg' None n nd Hnd) as H2.
      destruct (existsb (stl0 sg') (preds_of nd)); [injection H2 as Hs2 Hm2; congruence|].
      cbv zeta in H2. rewrite Hr in H2.
      destruct (mtime sg' (store e)) as [t|] eqn:Et; [|injection H2 as Hs2 Hm2; congruence].
      destruct ((is_some _ || negb (is_src e)) && _); injection H2 as Hs2 Hm2; [congruence|].
      assert (Hold : mtime sg (store e) = Some t) by (unfold mtime in *; rewrite <- Hu; exact Et).
      pose proof (Hb _ _ Hold) as Hg. rewrite Hm2 in Hg. cbn in Hg. apply Z.ltb_lt in Hg. lia.
    - (* emptied: stale, contradiction *)
      exfalso. assert (Hn : (n < length p)%nat) by (eapply dom; eauto).
      destruct (nth_error p n) as [nd|] eqn:Hnd; [|apply nth_error_None in Hnd; lia].
      pose proof (step_unfold reg p wf sg' None n nd Hnd) as H2.
      destruct (existsb (stl0 sg') (preds_of nd)); [injection H2 as Hs2 Hm2; congruence|].
      cbv zeta in H2. rewrite Hr in H2. unfold mtime in H2. rewrite Hd in H2. cbn in H2.
      injection H2 as Hs2 Hm2. congruence.
  Qed.

  (** * runs, complete or cut short after the writes in [w] *)
  Definition tw_ok (sg : sstate) (tw : nat -> Z) : Prop := forall n, newer sg (tw n).

  Lemma cut_evolves sg fresh tw w : tw_ok sg tw -> evolves sg (after_cut F reg sg fresh p tw w).
  Proof.
    intros Htw s. destruct (after_cut_spec F reg p dom sg fresh tw w s) as [(n & e & v & _ & _ & _ & _ & _ & E)|E].
    - right. right. exists v, (tw n). split; auto.
    - left. exact E.
  Qed.

  Lemma cut_sources sg fresh tw w n e :
    reg n = Some e -> is_src e = true ->
    content (after_cut F reg sg fresh p tw w) (store e) = content sg (store e).
  Proof.
    intros Hr Hs. unfold content. rewrite (after_cut_untouched F reg p dom); auto.
    intros m e' Hr' Hst. assert (m = n) by (eapply inj; eauto). subst. rewrite Hr in Hr'. inversion Hr'; subst.
    unfold is_written. rewrite Hr, Hs, andb_false_r. reflexivity.
  Qed.

  (** C08: whatever subset [w] of the run's writes completed before the cut, the invariant holds. *)
  Theorem cut_preserves_inv sg fresh tw w :
    Inv sg -> sources_present reg sg -> tw_ok sg tw -> Inv (after_cut F reg sg fresh p tw w).
  Proof.
    intros I Hp Htw. set (sg' := after_cut F reg sg fresh p tw w).
    assert (Hscr : forall n, scratch F reg sg' p n = scratch F reg sg p n).
    { apply (scratch_ext F reg p wf sg sg'). intros n e Hr Hs. apply (cut_sources sg fresh tw w n e Hr Hs). }
    apply (inv_evolves sg sg' I (cut_evolves sg fresh tw w Htw)).
    intros n e Hr Hs. destruct (is_written reg sg fresh p n && w n) eqn:Hw.
    - right. right. apply andb_true_iff in Hw. destruct Hw as [Hw Hwn].
      unfold sg', content. rewrite (after_cut_written F reg p inj dom sg fresh tw w n e Hr Hw Hwn).
      fold sg'. rewrite Hscr. rewrite (values_are_scratch F reg p wf sg fresh I n).
      destruct (scratch F reg sg p n) as [v|] eqn:Ev; [reflexivity|].
      exfalso. eapply (scratch_defined F reg p wf sg Hp n); eauto.
    - left. split; [|intros _; apply Hscr].
      unfold sg'. apply (after_cut_untouched F reg p dom). intros m e' Hr' Hst.
      assert (m = n) by (eapply inj; eauto). subst. exact Hw.
  Qed.

  Corollary run_preserves_inv sg fresh tw :
    Inv sg -> sources_present reg sg -> tw_ok sg tw -> Inv (after_run F reg sg fresh p tw).
  Proof. intros I Hp Htw. apply cut_preserves_inv; auto. Qed.

  (** * source updates and deletions *)
  Definition update_store (sg : sstate) (s : nat) (v T : Z) : sstate :=
    fun s' => if (s' =? s)%nat then Some (v, T) else sg s'.
  Definition delete_store (sg : sstate) (s : nat) : sstate :=
    fun s' => if (s' =? s)%nat then None else sg s'.

  Lemma update_evolves sg s v T : newer sg T -> evolves sg (update_store sg s v T).
  Proof.
    intros H s'. unfold update_store. destruct (s' =? s)%nat; [right; right; eauto|left; reflexivity].
  Qed.
  Lemma delete_evolves sg s : evolves sg (delete_store sg s).
  Proof. intros s'. unfold delete_store. destruct (s' =? s)%nat; auto. Qed.

  (** a fresh registry node whose store kept its old time does not present a "newer than everything" time *)
  Lemma fresh_not_big sg sg' n e :
    reg n = Some e -> stl0 sg' n = false -> mtime sg' (store e) = mtime sg (store e) -> ~ big sg (mt0 sg' n).
  Proof.
    intros Hr Hs Hsame Hb.
    assert (Hn : (n < length p)%nat) by (eapply dom; eauto).
    destruct (nth_error p n) as [nd|] eqn:Hnd; [|apply nth_error_None in Hnd; lia].
    pose proof (step_unfold reg p wf sg' None n nd Hnd) as H2.
    destruct (existsb (stl0 sg') (preds_of nd)); [injection H2 as Hs2 Hm2; congruence|].
    cbv zeta in H2. rewrite Hr in H2.
    destruct (mtime sg' (store e)) as [t|] eqn:Et; [|injection H2 as Hs2 Hm2; congruence].
    destruct ((is_some _ || negb (is_src e)) && _); injection H2 as Hs2 Hm2; [congruence|].
    symmetry in Hsame. pose proof (Hb _ _ Hsame) as Hg. rewrite Hm2 in Hg. cbn in Hg. apply Z.ltb_lt in Hg. lia.
  Qed.

  (** [down z n]: n depends on z (through any kind of edge) *)
  Inductive down (z : nat) : nat -> Prop :=
  | down_direct n nd : nth_error p n = Some nd -> In z (preds_of nd) -> down z n
  | down_step n nd j : nth_error p n = Some nd -> In j (preds_of nd) -> down z j -> down z n.

  Lemma down_lt z n : down z n -> (z < n)%nat.
  Proof.
    induction 1 as [n nd Hn Hin|n nd j Hn Hin Hd IH].
    - eapply wf; eauto.
    - assert (j < n)%nat by (eapply wf; eauto). lia.
  Qed.

  Section Update.
    Variables (sg : sstate) (z : nat) (ez : rentry) (v T : Z).
    Hypothesis Hz : reg z = Some ez.
    Hypothesis HT : newer sg T.
    Let sg' := update_store sg (store ez) v T.

    Lemma update_other_store n e : reg n = Some e -> n <> z -> sg' (store e) = sg (store e).
    Proof.
      intros Hr Hne. unfold sg', update_store. destruct (store e =? store ez)%nat eqn:E; auto.
      apply Nat.eqb_eq in E. exfalso. apply Hne. eapply inj; eauto.
    Qed.

    Lemma node_stale_or_big n nd :
      nth_error p n = Some nd ->
      (exists j, In j (preds_of nd) /\ (stl0 sg' j = true \/ big sg (mt0 sg' j))) ->
      n <> z ->
      stl0 sg' n = true \/ big sg (mt0 sg' n).
    Proof.
      intros Hn (j & Hj & Hjb) Hne.
      pose proof (step_unfold reg p wf sg' None n nd Hn) as H2.
      destruct (existsb (stl0 sg') (preds_of nd)) eqn:E2; try rewrite E2 in H2.
      { injection H2 as Hs2 Hm2. auto. }
      pose proof (existsb_false _ _ E2) as Hns2. cbv zeta in H2.
      set (ma2 := smax_list (map (mt0 sg') (preds_of nd))) in *.
      assert (Hb : big sg ma2).
      { destruct Hjb as [Hc|Hb]; [rewrite (Hns2 j Hj) in Hc; discriminate|].
        unfold ma2. eapply big_smax_list; [|exact Hb]. apply in_map. exact Hj. }
      destruct (reg n) as [e|] eqn:Er.
      - destruct (mtime sg' (store e)) as [t2|] eqn:Et2.
        + destruct ((is_some ma2 || negb (is_src e)) && (gt_opt ma2 t2 || gt_opt None t2)) eqn:Ec;
            injection H2 as Hs2 Hm2; auto.
          exfalso. assert (Hold : mtime sg (store e) = Some t2).
          { unfold mtime in *. rewrite <- (update_other_store n e Er Hne). exact Et2. }
          pose proof (Hb _ _ Hold) as Hg. rewrite Hg, (gt_opt_is_some _ _ Hg) in Ec. cbn in Ec. discriminate.
        + injection H2 as Hs2 Hm2. auto.
      - injection H2 as Hs2 Hm2. right. rewrite Hm2. exact Hb.
    Qed.

    Lemma z_stale_or_big : stl0 sg' z = true \/ big sg (mt0 sg' z).
    Proof.
      assert (Hn : (z < length p)%nat) by (eapply dom; eauto).
      destruct (nth_error p z) as [nd|] eqn:Hnd; [|apply nth_error_None in Hnd; lia].
      pose proof (step_unfold reg p wf sg' None z nd Hnd) as H2.
      destruct (existsb (stl0 sg') (preds_of nd)); [injection H2 as Hs2 Hm2; auto|].
      cbv zeta in H2. rewrite Hz in H2.
      assert (Et : mtime sg' (store ez) = Some T).
      { unfold mtime, sg', update_store. rewrite Nat.eqb_refl. reflexivity. }
      rewrite Et in H2.
      destruct ((is_some _ || negb (is_src ez)) && _); injection H2 as Hs2 Hm2; auto.
      right. rewrite Hm2. apply big_some. exact HT.
    Qed.

    Lemma down_stale_or_big n : down z n -> stl0 sg' n = true \/ big sg (mt0 sg' n).
    Proof.
      intros Hd. induction Hd as [n nd Hn Hin|n nd j Hn Hin Hd IH].
      - apply (node_stale_or_big n nd Hn).
        + exists z. split; auto. apply z_stale_or_big.
        + assert (z < n)%nat by (eapply wf; eauto). lia.
      - apply (node_stale_or_big n nd Hn).
        + exists j. split; auto.
        + pose proof (down_lt _ _ Hd). assert (j < n)%nat by (eapply wf; eauto). lia.
    Qed.

    Lemma scratch_update n :
      is_src ez = true -> ~ down z n -> n <> z -> scratch F reg sg' p n = scratch F reg sg p n.
    Proof.
      intros Hsz. induction n as [n IH] using lt_wf_ind. intros Hnd Hne.
      destruct (nth_error p n) as [nd|] eqn:Hn.
      2:{ apply nth_error_None in Hn. unfold scratch, scratch_table. rewrite !nth_overflow; auto; rewrite table_length; auto. }
      rewrite (scratch_fix F reg sg' p wf n nd Hn), (scratch_fix F reg sg p wf n nd Hn). unfold scratch_step.
      assert (Hc : compute F (scratch_table F reg sg' p) nd = compute F (scratch_table F reg sg p) nd).
      { apply compute_ext. intros j Hj.
        assert (Hjp : In j (preds_of nd)) by (unfold preds_of; apply in_or_app; auto).
        apply IH.
        - eapply wf; eauto.
        - intros Hdj. apply Hnd. eapply down_step; eauto.
        - intros ->. apply Hnd. eapply down_direct; eauto. }
      destruct (reg n) as [e|] eqn:Er; [|exact Hc]. destruct (is_src e) eqn:Es; [|exact Hc].
      unfold content. rewrite (update_other_store n e Er Hne). reflexivity.
    Qed.

    Theorem update_preserves_inv : is_src ez = true -> Inv sg -> Inv sg'.
    Proof.
      intros Hsz I. apply (inv_evolves sg sg' I (update_evolves sg (store ez) v T HT)).
      intros n e Hr Hs. left.
      assert (Hne : n <> z) by (intros ->; rewrite Hz in Hr; inversion Hr; subst; congruence).
      split; [apply (update_other_store n e Hr Hne)|].
      intros Hst. apply scratch_update; auto. intros Hd.
      destruct (down_stale_or_big n Hd) as [Hc|Hb]; [congruence|].
      eapply (fresh_not_big sg sg' n e Hr Hst); eauto. unfold mtime. rewrite (update_other_store n e Hr Hne). reflexivity.
    Qed.
  End Update.

  Theorem delete_preserves_inv sg d ed :
    reg d = Some ed -> is_src ed = false -> Inv sg -> Inv (delete_store sg (store ed)).
  Proof.
    intros Hd Hsd I. set (sg' := delete_store sg (store ed)).
    assert (Hscr : forall n, scratch F reg sg' p n = scratch F reg sg p n).
    { apply (scratch_ext F reg p wf sg sg'). intros n e Hr Hs. unfold content, sg', delete_store.
      destruct (store e =? store ed)%nat eqn:E; auto. apply Nat.eqb_eq in E.
      assert (n = d) by (eapply inj; eauto). subst. rewrite Hd in Hr. inversion Hr; subst. congruence. }
    apply (inv_evolves sg sg' I (delete_evolves sg (store ed))).
    intros n e Hr Hs. unfold sg', delete_store. destruct (store e =? store ed)%nat eqn:E.
    - right. left. reflexivity.
    - left. split; [reflexivity|]. intros _. apply Hscr.
  Qed.

  (** * histories *)
  Inductive op :=
  | ORun (fresh : option Z) (tw : nat -> Z)                       (* a complete successful run *)
  | OCut (fresh : option Z) (tw : nat -> Z) (w : nat -> bool)     (* a run cut short: the writes in w took effect *)
  | OUpdate (z : nat) (v T : Z)                                   (* source z gets content v at time T *)
  | ODelete (d : nat).                                            (* the stored value of node d is deleted *)

  Definition apply_op (sg : sstate) (o : op) : sstate :=
    match o with
    | ORun fresh tw => after_run F reg sg fresh p tw
    | OCut fresh tw w => after_cut F reg sg fresh p tw w
    | OUpdate z v T => match reg z with Some ez => update_store sg (store ez) v T | None => sg end
    | ODelete d => match reg d with Some ed => delete_store sg (store ed) | None => sg end
    end.

  (** H-clock and the shape of the operations *)
  Definition op_ok (sg : sstate) (o : op) : Prop :=
    match o with
    | ORun _ tw | OCut _ tw _ => tw_ok sg tw /\ sources_present reg sg
    | OUpdate z v T => (exists ez, reg z = Some ez /\ is_src ez = true) /\ newer sg T
    | ODelete d => exists ed, reg d = Some ed /\ is_src ed = false
    end.

  Fixpoint apply_ops (sg : sstate) (ops : list op) : sstate :=
    match ops with [] => sg | o :: rest => apply_ops (apply_op sg o) rest end.
  Fixpoint ops_ok (sg : sstate) (ops : list op) : Prop :=
    match ops with [] => True | o :: rest => op_ok sg o /\ ops_ok (apply_op sg o) rest end.

  Lemma op_preserves_inv sg o : Inv sg -> op_ok sg o -> Inv (apply_op sg o).
  Proof.
    intros I Hok. destruct o as [fresh tw|fresh tw w|z v T|d]; cbn in *.
    - destruct Hok. apply run_preserves_inv; auto.
    - destruct Hok. apply cut_preserves_inv; auto.
    - destruct Hok as [(ez & Hz & Hs) HT]. rewrite Hz. eapply update_preserves_inv; eauto.
    - destruct Hok as (ed & Hd & Hs). rewrite Hd. eapply delete_preserves_inv; eauto.
  Qed.

  Theorem inv_history ops : forall sg, Inv sg -> ops_ok sg ops -> Inv (apply_ops sg ops).
  Proof.
    induction ops as [|o rest IH]; intros sg I Hok; cbn in *; auto.
    destruct Hok as [Ho Hrest]. apply IH; auto. apply op_preserves_inv; auto.
  Qed.

  Lemma inv_empty : Inv (fun _ => None).
  Proof.
    intros n e Hr Hs Hst. exfalso. change (stl0 (fun _ => None) n = false) in Hst.
    assert (Hn : (n < length p)%nat) by (eapply dom; eauto).
    destruct (nth_error p n) as [nd|] eqn:Hnd; [|apply nth_error_None in Hnd; lia].
    pose proof (step_unfold reg p wf (fun _ => None) None n nd Hnd) as H2.
    destruct (existsb _ (preds_of nd)); [injection H2 as Hs2 Hm2; congruence|].
    cbv zeta in H2. rewrite Hr in H2. cbn in H2. injection H2 as Hs2 Hm2. congruence.
  Qed.

  (** C03: after ANY history of runs (complete or cut short), source updates and deletions starting
      from empty stores, a complete run returns the from-scratch output and leaves the from-scratch
      value in every non-source store. *)
  Theorem incremental_eq_scratch ops fresh output tw :
    ops_ok (fun _ => None) ops ->
    let sg := apply_ops (fun _ => None) ops in
    sources_present reg sg ->
    let sg' := after_run F reg sg fresh p tw in
    (forall n e, reg n = Some e -> is_src e = false -> content sg' (store e) = scratch F reg sg' p n) /\
    (forall n e, reg n = Some e -> is_src e = true -> content sg' (store e) = content sg (store e)) /\
    (forall o, output = Some o -> run_output F reg sg fresh output p = scratch F reg sg p o).
  Proof.
    intros Hok sg Hp. apply (run_eq_scratch F reg p wf inj dom sg fresh output tw); auto.
    apply inv_history; auto. apply inv_empty.
  Qed.
End Hist.
