(** End-to-end compositions: the engine theorem (C01) applied to the graphs that the plan-level
    transformations hand to the engine.
      plan --prune_plan/prune_source_literals--> run graph --engine--> events
      plan + registry --add_value_store*--> physical plan --prune--> executed graph --engine--> events *)
From Coq Require Import List Arith Bool Lia.
Import ListNotations.
From UJ Require Import Engine.Engine Engine.EngineOrd Base.Topo Base.TopoProofs Base.Graph Base.GraphProofs
     Cache.Prune Cache.PruneProofs Cache.Transform Cache.TransformProofs.

(** The graph [run_physical] gives the engine: source literals are removed first. *)
Definition executed (r : pgraph) : pgraph := prune_source_literals r (fun _ => true).

Lemma executed_wf r : pgraph_wf r -> graph_wf (to_graph (executed r)).
Proof. intros H. apply to_graph_wf. apply (de_wf _ _ (psl_dep_equiv r (fun _ => true)) H). Qed.

(** * Without a registry: a call starts only after every call it depends on IN THE PLAN finished OK. *)
Theorem plan_run_order (p : pgraph) (output : option nat) (c : cfg) (s : st) :
  pgraph_wf p -> g c = to_graph (run_graph p output) -> 1 <= workers c -> reachable c s ->
  forall h1 h2 n, hist s = h1 ++ EStart n :: h2 ->
  forall m, In m (pnodes (run_graph p output)) -> In n (pnodes (run_graph p output)) ->
            reach (to_graph p) m n -> In (EOk m) h2.
Proof.
  intros Hwf Hg Hw Hr h1 h2 n Hh m Hm Hn Hreach.
  assert (Hok : cfg_ok c). { split; [rewrite Hg; apply run_graph_wf; exact Hwf | exact Hw]. }
  apply (ordered_reachable c s Hok Hr h1 h2 n Hh m). rewrite Hg.
  apply run_graph_preserves_deps; assumption.
Qed.

(** * With a registry: in every run of the executed physical plan, under every schedule, a consumer of a
    rebuilt stored value starts only after the value was computed, written and read back. *)
Theorem physical_run_order (p : pgraph) (c0 : nat) (es : list entry) (output : option nat)
        (e : entry) (ce : nat) (sn : nat) (k : ekey) (c : cfg) (s : st) :
  tctx p c0 es -> In (e, ce) (entry_ids c0 es) -> estale e = true -> esource e = false ->
  In (mke (enode e) sn k) (pedges p) -> k <> KDep ->
  let r := fst (physical p c0 es output) in
  In sn (pnodes r) -> pkind r sn = KCall -> pkind r (enode e) = KCall ->
  g c = to_graph (executed r) -> 1 <= workers c -> reachable c s ->
  forall h1 h2, hist s = h1 ++ EStart sn :: h2 ->
    In (EOk (enode e)) h2 /\ In (EOk (write_id ce)) h2 /\ In (EOk (read_id ce)) h2.
Proof.
  intros Ht Hin Hst Hso Hedge Hk r Hsn Hkind Hke Hg Hw Hr h1 h2 Hh.
  destruct (C09_consumer_in_physical_plan p c0 es output e ce sn k Ht Hin Hedge Hk Hsn)
    as (_ & _ & Hrd & Hall).
  destruct (Hall Hst Hso) as (Hvw & R1 & R2 & R3).
  assert (Hwfr : pgraph_wf r).
  { unfold r. rewrite physical_fst. apply prune_wf. apply transform_wf. exact Ht. }
  assert (Hok : cfg_ok c). { split; [rewrite Hg; apply executed_wf; exact Hwfr | exact Hw]. }
  (* the four nodes are calls of r, hence survive the removal of source literals *)
  assert (Hwr : In (write_id ce) (pnodes r)) by (apply (C09_write_survives p c0 es output e ce Ht Hin Hst Hso)).
  destruct (C14_write_call_args_in_physical p c0 es output e ce Ht Hin Hst Hso) as (_ & _ & _ & Hen & _ & Hkw).
  destruct (C14_read_call_arg_in_physical p c0 es output e ce Ht Hin Hrd) as (_ & _ & _ & Hkr).
  assert (Hlit : forall x, pkind r x = KCall -> is_lit r x = false) by (intros x Hx; unfold is_lit; now rewrite Hx).
  assert (Ex : forall x, In x (pnodes r) -> pkind r x = KCall -> In x (pnodes (executed r))).
  { intros x Hx Hkx. apply (psl_calls_kept r (fun _ => true) x (Hlit x Hkx)). exact Hx. }
  pose proof (Ex _ Hwr Hkw) as Ew. pose proof (Ex _ Hrd Hkr) as Er. pose proof (Ex _ Hsn Hkind) as Es.
  assert (T : forall a b, In a (pnodes (executed r)) -> In b (pnodes (executed r)) ->
                          reach (to_graph r) a b -> reach (g c) a b).
  { intros a b Ha Hb Hab. rewrite Hg. apply psl_preserves_deps; assumption. }
  pose proof (ordered_reachable c s Hok Hr h1 h2 sn Hh) as O.
  split; [|split].
  - apply O. apply T; [apply Ex; assumption | exact Es |].
    eapply reach_trans; [exact R1|]. eapply reach_trans; [exact R2|exact R3].
  - apply O. apply T; [exact Ew | exact Es |]. eapply reach_trans; [exact R2|exact R3].
  - apply O. apply T; [exact Er | exact Es | exact R3].
Qed.

(** * C04 at plan level: on success exactly the calls the output depends on run, each exactly once. *)
From UJ Require Import Engine.EngineInv Engine.EngineTermInv Engine.EngineComplete.

Lemma started_was_enqueued c s n : Inv c s -> In (EStart n) (hist s) -> 0 < lc n s.
Proof.
  intros I H. apply count_ev_in in H. pose proof (i_started _ _ I n) as E.
  pose proof (csum_le (post n) (hn n) (ws s) (post_le_hn n)). unfold lc. lia.
Qed.

Theorem plan_run_exact (p : pgraph) (output : option nat) (c : cfg) (s : st) :
  pgraph_wf p -> acyclic (to_graph p) ->
  g c = to_graph (run_graph p output) -> 1 <= workers c ->
  reachable c s -> final s -> result s = Some Returned ->
  forall n, In n (pnodes p) -> is_lit p n = false ->
    ((output = Some n \/ exists o, output = Some o /\ reach (to_graph p) n o) -> count_ev (EStart n) (hist s) = 1) /\
    (~ (output = Some n \/ exists o, output = Some o /\ reach (to_graph p) n o) -> count_ev (EStart n) (hist s) = 0).
Proof.
  intros Hwf Hac Hg Hw Hr Hf Hres n Hn Hlit.
  assert (Hok : cfg_ok c). { split; [rewrite Hg; apply run_graph_wf; exact Hwf | exact Hw]. }
  pose proof (run_graph_calls p output n Hlit) as Hcalls.
  split.
  - intros Hneed. apply (success_exactly_once c s Hok); auto.
    + rewrite Hg. apply run_graph_acyclic. exact Hac.
    + rewrite Hg. cbn. apply Hcalls. split; assumption.
  - intros Hnot. destruct (count_ev (EStart n) (hist s)) eqn:E; [reflexivity|]. exfalso. apply Hnot.
    assert (Hin : In (EStart n) (hist s)) by (apply count_ev_in; lia).
    pose proof (inv_reachable c s Hok Hr) as I.
    pose proof (enqueued_in_nodes c s n Hok Hr (started_was_enqueued c s n I Hin)) as Hnode.
    rewrite Hg in Hnode. cbn in Hnode. apply Hcalls in Hnode. tauto.
Qed.
