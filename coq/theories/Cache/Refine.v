(** L2 refines L1: the pruned physical plan built by the graph surgery of Cache/Transform.v + Prune.v on
    [to_pgraph p] keeps exactly the roles that the closed forms of Cache/Logical.v predict.  This is the
    theorem whose executable form is [Link.link_mismatches] (evaluated on every generated case).

    Part A: [to_pgraph p] and [entries_of reg st n] are a well-formed transformation context (R0).
    Part B: out-edges, in the transformed plan [add_all], of original nodes and of read nodes
            (for ANY registry order).
    Part C: which nodes reach a root of the pruning = L1's [active] (backward induction).
    Part D: the refinement theorems R1-R3 and [link_mismatches_nil].
    Part E: non-vacuity, and the one input class on which L1 and L2 differ (a source with arguments). *)
From Coq Require Import List Arith ZArith Bool Lia Permutation.
Import ListNotations.
From UJ Require Import Engine.Engine Base.Topo Base.TopoProofs Base.Graph Base.GraphProofs
  Cache.Prune Cache.PruneProofs Cache.Transform Cache.TransformProofs
  Cache.Logical Cache.LogicalProofs Cache.Link Cache.Minimal.

(** * Part A: the plan as a keyed multigraph *)
Lemma pos_edges_In : forall l d k x,
  In x (pos_edges d k l) <-> edst x = d /\ exists j, ekind x = KPos (k + j) /\ nth_error l j = Some (esrc x).
Proof.
  induction l as [|a l IH]; intros d k x; cbn [pos_edges In].
  - split; [intros [] | intros [_ [[|j] [_ H]]]; discriminate].
  - rewrite IH. split.
    + intros [<- | [Hd [j [Hk Hj]]]].
      * split; [reflexivity|]. exists 0. now rewrite Nat.add_0_r.
      * split; [assumption|]. exists (S j). split; [|assumption]. rewrite Hk. f_equal. lia.
    + intros [Hd [[|j] [Hk Hj]]]; cbn in Hj.
      * left. inversion Hj; subst. rewrite Nat.add_0_r in Hk. destruct x as [s t kk]; cbn in *. now subst.
      * right. split; [assumption|]. exists j. split; [|assumption]. rewrite Hk. f_equal. lia.
Qed.

Lemma pos_edges_NoDup : forall l d k, NoDup (pos_edges d k l).
Proof.
  induction l as [|a l IH]; intros d k; cbn [pos_edges]; constructor; [|apply IH].
  intros H. apply pos_edges_In in H. destruct H as [_ [j [Hk _]]]. cbn in Hk. inversion Hk. lia.
Qed.

Lemma map_inj_NoDup {A B} (f : A -> B) l :
  (forall a b, f a = f b -> a = b) -> NoDup l -> NoDup (map f l).
Proof.
  intros Hinj H. induction H as [|a l Hn H IH]; cbn; constructor; [|assumption].
  intros Hin. apply in_map_iff in Hin. destruct Hin as [b [Hb Hin]]. apply Hinj in Hb. now subst.
Qed.

Lemma plan_edges_In : forall p b x,
  In x (plan_edges b p) <->
  exists i nd, nth_error p i = Some nd /\ edst x = b + i /\
    ((exists j, ekind x = KPos j /\ nth_error (args nd) j = Some (esrc x)) \/
     (ekind x = KDep /\ In (esrc x) (deps nd))).
Proof.
  induction p as [|nd0 p IH]; intros b x; cbn [plan_edges].
  - split; [intros [] | intros [[|i] [nd [H _]]]; discriminate].
  - rewrite !in_app_iff, pos_edges_In, in_map_iff, IH. split.
    + intros [[Hd [j [Hk Hj]]] | [[d [Hx Hd]] | [i [nd [Hi [Hd Hc]]]]]].
      * exists 0, nd0. split; [reflexivity|]. split; [lia|]. left. now exists j.
      * exists 0, nd0. split; [reflexivity|]. subst x. cbn. split; [lia|]. right. split; [reflexivity|].
        now apply nodup_In in Hd.
      * exists (S i), nd. split; [assumption|]. split; [lia | assumption].
    + intros [[|i] [nd [Hi [Hd Hc]]]]; cbn in Hi.
      * inversion Hi; subst nd0. destruct Hc as [[j [Hk Hj]] | [Hk Hin]].
        -- left. split; [lia|]. now exists j.
        -- right. left. exists (esrc x). split; [|now apply nodup_In].
           destruct x as [s t kk]; cbn in *. subst. unfold mke. f_equal. lia.
      * right. right. exists i, nd. split; [assumption|]. split; [lia | assumption].
Qed.

Lemma plan_edges_NoDup : forall p b, NoDup (plan_edges b p).
Proof.
  induction p as [|nd p IH]; intros b; cbn [plan_edges]; [constructor|].
  apply NoDup_app_intro; [apply pos_edges_NoDup | apply NoDup_app_intro |].
  - apply map_inj_NoDup; [|apply NoDup_nodup]. intros a c H. now inversion H.
  - apply IH.
  - intros x H1 H2. apply in_map_iff in H1. destruct H1 as [d [<- _]].
    apply plan_edges_In in H2. destruct H2 as [i [nd' [_ [Hd _]]]]. cbn in Hd. lia.
  - intros x H1 H2. apply pos_edges_In in H1. destruct H1 as [Hd [j [Hk _]]].
    apply in_app_or in H2. destruct H2 as [H2 | H2].
    + apply in_map_iff in H2. destruct H2 as [d [<- _]]. discriminate.
    + apply plan_edges_In in H2. destruct H2 as [i [nd' [_ [Hd' _]]]]. lia.
Qed.

(** * Part B: out-edges in the transformed plan, for any registry order *)

(** inversion of one step for an edge whose source is an old node that this step does not register *)
Lemma avs_out_old p c e x :
  sctx p c e -> In x (pedges (add_value_store p c e)) -> esrc x < c -> esrc x <> enode e ->
  In x (pedges p) \/
  (estale e = true /\ esource e = true /\ x = mke (esrc x) (write_id c) KDep /\
   exists k, In (mke (esrc x) (enode e) k) (pedges p)).
Proof.
  intros Hs Hx Hlt Hne. apply (add_value_store_edges p c e x Hs) in Hx.
  destruct Hx as [x Hx Hsrc | | Hst Hso | Hst Hso | Hst | pr Hst Hso Hpr | s k Hin Hk | s Hst Hin];
    cbn [esrc edst ekind mke] in *; unfold lit_id, read_id, write_id in *; try lia.
  - now left.
  - right. split; [assumption|]. split; [assumption|]. split; [reflexivity|]. now apply pedge_iff.
Qed.

(** (O1) the out-edges of an old node that is not registered: its original out-edges, plus one
    Dependency edge to the Barrier of every stale source it precedes *)
Lemma add_all_out_unregistered x : forall es p c,
  tctx p c es -> In x (pedges (add_all p c es)) -> esrc x < c -> ~ In (esrc x) (map enode es) ->
  In x (pedges p) \/
  exists e' c', In (e', c') (entry_ids c es) /\ estale e' = true /\ esource e' = true /\
                x = mke (esrc x) (write_id c') KDep /\ exists k, In (mke (esrc x) (enode e') k) (pedges p).
Proof.
  induction es as [|e0 es IH]; intros p c Ht Hx Hlt Hno; cbn [add_all entry_ids] in *; [now left|].
  pose proof (tctx_head _ _ _ _ Ht) as Hs. pose proof (tctx_step _ _ _ _ Ht) as Ht'.
  pose proof (next_id_ge c e0) as Hge.
  assert (Hne : esrc x <> enode e0) by (intros H; apply Hno; cbn; now left).
  assert (Hno' : ~ In (esrc x) (map enode es)) by (intros H; apply Hno; cbn; now right).
  destruct (IH _ _ Ht' Hx ltac:(lia) Hno') as [Hx' | [e' [c' [Hin [Hst [Hso [Heq [k Hk]]]]]]]].
  - destruct (avs_out_old p c e0 x Hs Hx' Hlt Hne) as [H | [Hst [Hso [Heq Hk]]]]; [now left|].
    right. exists e0, c. split; [now left | auto].
  - right. exists e', c'. split; [now right|]. split; [assumption|]. split; [assumption|].
    split; [assumption|]. exists k.
    assert (He' : enode e' < c).
    { apply (tctx_reg_lt p c (e0 :: es) _ Ht). cbn. right. now apply (entry_reg _ _ _ _ Hin). }
    destruct (avs_out_old p c e0 _ Hs Hk) as [H | [_ [_ [Heq' _]]]]; cbn [esrc mke]; try assumption.
    apply mke_eq in Heq'. destruct Heq' as [_ [Heq' _]]. unfold write_id in Heq'. lia.
Qed.

(** (O2) the only out-edge of a registered node is the value argument of its write call *)
Lemma add_all_out_registered x : forall es p c e ce,
  tctx p c es -> In (e, ce) (entry_ids c es) ->
  (forall k, ~ In (mke (enode e) (enode e) k) (pedges p)) ->
  In x (pedges (add_all p c es)) -> esrc x = enode e ->
  x = mke (enode e) (write_id ce) (KPos 1) /\ estale e = true /\ esource e = false.
Proof.
  induction es as [|e0 es IH]; intros p c e ce Ht Hin Hloop Hx Hsrc; cbn [add_all entry_ids] in *;
    [contradiction|].
  pose proof (tctx_head _ _ _ _ Ht) as Hs. pose proof (tctx_step _ _ _ _ Ht) as Ht'.
  pose proof (next_id_ge c e0) as Hge.
  assert (Hec : enode e < c).
  { apply (tctx_reg_lt p c (e0 :: es) _ Ht). now apply (entry_reg c (e0 :: es) e ce). }
  destruct Hin as [Heq | Hin].
  - inversion Heq; subst e0 ce.
    assert (Hno : ~ In (esrc x) (map enode es)) by (rewrite Hsrc; now apply (tctx_head_notin _ _ _ _ Ht)).
    assert (Hstep : forall y, In y (pedges (add_value_store p c e)) -> esrc y = enode e ->
                    y = mke (enode e) (write_id c) (KPos 1) /\ estale e = true /\ esource e = false).
    { intros y Hy Hys. apply (add_value_store_edges p c e y Hs) in Hy.
      destruct Hy as [y Hy Hsrc' | | Hst Hso | Hst Hso | Hst | pr Hst Hso Hpr | s k Hin Hk | s Hst Hin];
        cbn [esrc edst ekind mke] in *; unfold lit_id, read_id, write_id in *; try lia.
      - auto.
      - subst pr. apply pedge_iff in Hpr. destruct Hpr as [k Hk]. now apply Hloop in Hk. }
    destruct (add_all_out_unregistered x es _ _ Ht' Hx ltac:(lia) Hno)
      as [Hx' | [e' [c' [Hin' [_ [_ [_ [k Hk]]]]]]]].
    + now apply Hstep.
    + exfalso. rewrite Hsrc in Hk. destruct (Hstep _ Hk eq_refl) as [Heq' _].
      apply mke_eq in Heq'. destruct Heq' as [_ [Heq' _]].
      assert (enode e' < next_id c e).
      { apply (tctx_reg_lt _ _ es _ Ht'). now apply (entry_reg _ _ _ _ Hin'). }
      assert (He' : enode e' < c).
      { apply (tctx_reg_lt p c (e :: es) _ Ht). cbn. right. now apply (entry_reg _ _ _ _ Hin'). }
      unfold write_id in Heq'. lia.
  - apply (IH _ _ e ce Ht' Hin); try assumption.
    intros k Hk. apply (add_value_store_edges p c e0 _ Hs) in Hk. apply avs_edge_new_high in Hk.
    cbn [esrc edst mke] in Hk. destruct Hk as [Hk | [Hk | Hk]]; [now apply Hloop in Hk | lia | lia].
Qed.

(** (O4) the out-edges of a read node: the argument edges of its registered node, plus one Dependency edge
    to the Barrier of every stale source that takes the registered node as an ARGUMENT *)
Lemma add_all_out_read x : forall es p c e ce,
  tctx p c es -> In (e, ce) (entry_ids c es) ->
  In x (pedges (add_all p c es)) -> esrc x = read_id ce ->
  (ekind x <> KDep /\ In (mke (enode e) (edst x) (ekind x)) (pedges p)) \/
  exists e' c', In (e', c') (entry_ids c es) /\ estale e' = true /\ esource e' = true /\
                x = mke (read_id ce) (write_id c') KDep /\
                exists k, k <> KDep /\ In (mke (enode e) (enode e') k) (pedges p).
Proof.
  induction es as [|e0 es IH]; intros p c e ce Ht Hin Hx Hsrc; cbn [add_all entry_ids] in *;
    [contradiction|].
  pose proof (tctx_head _ _ _ _ Ht) as Hs. pose proof (tctx_step _ _ _ _ Ht) as Ht'.
  pose proof (next_id_ge c e0) as Hge. pose proof Ht as [Hwf [Hc _]].
  assert (Hec : enode e < c).
  { apply (tctx_reg_lt p c (e0 :: es) _ Ht). now apply (entry_reg c (e0 :: es) e ce). }
  destruct Hin as [Heq | Hin].
  - inversion Heq; subst e0 ce.
    assert (Hlt : esrc x < next_id c e).
    { rewrite Hsrc. unfold read_id, next_id. destruct (estale e); lia. }
    assert (Hno : ~ In (esrc x) (map enode es)).
    { intros H. assert (H' : esrc x < c) by (apply (tctx_reg_lt p c (e :: es) _ Ht); cbn; now right).
      rewrite Hsrc in H'. unfold read_id in H'. lia. }
    assert (Hstep : forall y, In y (pedges (add_value_store p c e)) -> esrc y = read_id c ->
                    ekind y <> KDep /\ In (mke (enode e) (edst y) (ekind y)) (pedges p)).
    { intros y Hy Hys. apply (add_value_store_edges p c e y Hs) in Hy.
      destruct Hy as [y Hy Hsrc' | | Hst Hso | Hst Hso | Hst | pr Hst Hso Hpr | s k Hin Hk | s Hst Hin];
        cbn [esrc edst ekind mke] in *; unfold lit_id, read_id, write_id in *; try lia.
      - destruct (edge_lt p c y Hwf Hc Hy) as [H1 _]. lia.
      - subst pr. apply (to_graph_wf p Hwf) in Hpr. destruct Hpr as [Hpr _]. apply Hc in Hpr. lia.
      - auto. }
    destruct (add_all_out_unregistered x es _ _ Ht' Hx Hlt Hno)
      as [Hx' | [e' [c' [Hin' [Hst [Hso [Hxeq [k Hk]]]]]]]].
    + left. now apply Hstep.
    + right. exists e', c'. split; [now right|]. split; [assumption|]. split; [assumption|].
      rewrite Hsrc in Hxeq, Hk. split; [assumption|]. destruct (Hstep _ Hk eq_refl) as [H1 H2].
      exists k. auto.
  - assert (Hne : enode e0 <> enode e).
    { intros H. apply (tctx_head_notin _ _ _ _ Ht). rewrite H. now apply (entry_reg _ _ _ _ Hin). }
    assert (Hback : forall s k, k <> KDep -> In (mke (enode e) s k) (pedges (add_value_store p c e0)) ->
                    In (mke (enode e) s k) (pedges p)).
    { intros s k Hk Hy. destruct (avs_out_old p c e0 _ Hs Hy) as [H | [_ [_ [Heq' _]]]];
        cbn [esrc mke]; try assumption; [congruence|].
      apply mke_eq in Heq'. destruct Heq' as [_ [_ Heq']]. contradiction. }
    destruct (IH _ _ e ce Ht' Hin Hx Hsrc) as [[Hk Hy] | [e' [c' [Hin' [Hst [Hso [Hxeq [k [Hk Hy]]]]]]]]].
    + left. split; [assumption|]. now apply Hback.
    + right. exists e', c'. split; [now right|]. split; [assumption|]. split; [assumption|].
      split; [assumption|]. exists k. split; [assumption|]. now apply Hback.
Qed.

(** entry ids are a function of the registered node *)
Lemma entry_ids_fun c es e1 c1 e2 c2 :
  NoDup (map enode es) -> In (e1, c1) (entry_ids c es) -> In (e2, c2) (entry_ids c es) ->
  enode e1 = enode e2 -> e1 = e2 /\ c1 = c2.
Proof.
  revert c. induction es as [|e0 es IH]; intros c Hnd H1 H2 Heq; cbn [entry_ids map] in *; [contradiction|].
  inversion Hnd as [|? ? Hno Hnd']; subst.
  destruct H1 as [H1 | H1], H2 as [H2 | H2].
  - inversion H1; inversion H2; subst. auto.
  - inversion H1; subst. exfalso. apply Hno. rewrite Heq. now apply (entry_reg _ _ _ _ H2).
  - inversion H2; subst. exfalso. apply Hno. rewrite <- Heq. now apply (entry_reg _ _ _ _ H1).
  - now apply (IH (next_id c e0)).
Qed.

Lemma required_writes_iff c es w :
  In w (required_writes c es) <-> exists e ce, In (e, ce) (entry_ids c es) /\ estale e = true /\ w = write_id ce.
Proof.
  unfold required_writes. rewrite in_map_iff. split.
  - intros [[e ce] [Hw Hin]]. apply filter_In in Hin. cbn in *. exists e, ce. destruct Hin as [H1 H2]. subst w. auto.
  - intros [e [ce [Hin [Hst ->]]]]. exists (e, ce). split; [reflexivity|]. apply filter_In. auto.
Qed.

(** unfolding "is an ancestor of a root" one step at the front *)
Lemma anc_of_step g R v : anc_of g R v <-> In v R \/ exists w, edge g v w /\ anc_of g R w.
Proof.
  split.
  - intros [H | [s [Hs Hr]]]; [now left|]. right. apply reach_first in Hr.
    destruct Hr as [He | [k [He Hr]]].
    + exists s. split; [assumption | now left].
    + exists k. split; [assumption|]. right. now exists s.
  - intros [H | [w [He Hw]]]; [now left|]. now apply (anc_of_pred g R v w).
Qed.

(** * Parts A (continued), C, D: the plan [p] with its registry *)
Section Refine.
  Variables (reg : registry) (st : nat -> bool) (output : option nat) (p : plan).
  Hypothesis wf : wf_plan p.
  Hypothesis dom : forall i e, reg i = Some e -> i < length p.
  Hypothesis out_ok : forall o, output = Some o -> o < length p.

  Notation n := (length p).
  Notation P := (to_pgraph p).
  Notation es := (entries_of reg st (length p)).
  Notation ids := (entry_ids (length p) (entries_of reg st (length p))).
  Notation Q := (add_all (to_pgraph p) (length p) (entries_of reg st (length p))).
  Notation roots := (prune_roots (required_writes (length p) (entries_of reg st (length p)))
                                 (redirect (length p) (entries_of reg st (length p)) output)).
  Notation phys := (fst (physical (to_pgraph p) (length p) (entries_of reg st (length p)) output)).
  Notation needs := (need_table reg st output 0 p).
  Notation pullsg := (pulls_g reg st output p).
  Notation activeg := (active_g reg st output p).

  (** the edges of [to_pgraph p] *)
  Lemma P_edge_In x :
    In x (pedges P) <->
    exists nd, nth_error p (edst x) = Some nd /\
      ((exists j, ekind x = KPos j /\ nth_error (args nd) j = Some (esrc x)) \/
       (ekind x = KDep /\ In (esrc x) (deps nd))).
  Proof.
    cbn [to_pgraph pedges]. rewrite plan_edges_In. split.
    - intros [i [nd [Hi [Hd Hc]]]]. cbn in Hd. subst i. now exists nd.
    - intros [nd [Hi Hc]]. exists (edst x), nd. auto.
  Qed.

  Lemma P_edge_pred x nd : In x (pedges P) -> nth_error p (edst x) = Some nd -> In (esrc x) (preds_of nd).
  Proof.
    intros Hx Hn. apply P_edge_In in Hx. destruct Hx as [nd' [Hn' Hc]]. rewrite Hn in Hn'. inversion Hn'; subst nd'.
    unfold preds_of. apply in_or_app. destruct Hc as [[j [_ Hj]] | [_ Hd]]; [left | now right].
    eapply nth_error_In; eauto.
  Qed.

  Lemma P_edge_lt x : In x (pedges P) -> esrc x < edst x /\ edst x < n.
  Proof.
    intros Hx. pose proof Hx as Hx'. apply P_edge_In in Hx'. destruct Hx' as [nd [Hn _]].
    split; [|apply nth_error_Some; congruence]. apply (wf _ nd Hn). now apply P_edge_pred.
  Qed.

  (** an argument of [b] is an argument edge, a predecessor of [b] is an edge *)
  Lemma P_arg_edge a b nd : nth_error p b = Some nd -> In a (args nd) -> exists j, In (mke a b (KPos j)) (pedges P).
  Proof.
    intros Hb Ha. apply In_nth_error in Ha. destruct Ha as [j Hj]. exists j. apply P_edge_In. cbn.
    exists nd. split; [assumption|]. left. now exists j.
  Qed.

  Lemma P_pred_edge a b nd : nth_error p b = Some nd -> In a (preds_of nd) -> exists k, In (mke a b k) (pedges P).
  Proof.
    intros Hb Ha. unfold preds_of in Ha. apply in_app_or in Ha. destruct Ha as [Ha | Ha].
    - destruct (P_arg_edge a b nd Hb Ha) as [j Hj]. now exists (KPos j).
    - exists KDep. apply P_edge_In. cbn. exists nd. split; [assumption|]. now right.
  Qed.

  Lemma P_nonDep_arg a b k nd :
    In (mke a b k) (pedges P) -> k <> KDep -> nth_error p b = Some nd -> In a (args nd).
  Proof.
    intros Hx Hk Hb. apply P_edge_In in Hx. cbn in Hx. destruct Hx as [nd' [Hn' Hc]].
    rewrite Hb in Hn'. inversion Hn'; subst nd'. destruct Hc as [[j [_ Hj]] | [Hk' _]]; [|contradiction].
    eapply nth_error_In; eauto.
  Qed.

  (** the registry entries, in index order *)
  Lemma entries_In_gen : forall l e,
    In e (flat_map (fun i => match reg i with
                             | Some re => [{| enode := i; esource := is_src re; estale := st i |}]
                             | None => [] end) l) <->
    exists re, In (enode e) l /\ reg (enode e) = Some re /\ esource e = is_src re /\ estale e = st (enode e).
  Proof.
    intros l e. rewrite in_flat_map. split.
    - intros [i [Hi He]]. destruct (reg i) as [re|] eqn:Er; [|contradiction].
      destruct He as [<- | []]. cbn. exists re. auto.
    - intros [re [Hi [Hr [Hs Ht]]]]. exists (enode e). split; [assumption|]. rewrite Hr. left.
      destruct e as [a b c]; cbn in *. now subst.
  Qed.

  Lemma entries_In e :
    In e es <-> exists re, reg (enode e) = Some re /\ esource e = is_src re /\ estale e = st (enode e).
  Proof.
    unfold entries_of. rewrite entries_In_gen. split.
    - intros [re [_ H]]. now exists re.
    - intros [re [Hr H]]. exists re. split; [|auto]. apply in_seq. pose proof (dom _ _ Hr). lia.
  Qed.

  Lemma entries_nodes_gen : forall l,
    map enode (flat_map (fun i => match reg i with
                                  | Some re => [{| enode := i; esource := is_src re; estale := st i |}]
                                  | None => [] end) l) =
    filter (fun i => match reg i with Some _ => true | None => false end) l.
  Proof.
    induction l as [|i l IH]; cbn [flat_map filter]; [reflexivity|].
    rewrite map_app, IH. now destruct (reg i).
  Qed.

  Lemma entries_registered i : In i (map enode es) <-> reg i <> None.
  Proof.
    unfold entries_of. rewrite entries_nodes_gen, filter_In, in_seq. split.
    - intros [_ H] Hr. now rewrite Hr in H.
    - intros H. destruct (reg i) as [re|] eqn:Er; [|contradiction]. split; [|reflexivity].
      pose proof (dom _ _ Er). lia.
  Qed.

  (** (R0) the transformation context *)
  Theorem R0_tctx : tctx P n es.
  Proof.
    split; [|split; [|split]].
    - split; [apply seq_NoDup | split; [apply plan_edges_NoDup|]].
      intros e He. destruct (P_edge_lt e He) as [H1 H2]. cbn [to_pgraph pnodes]. rewrite !in_seq. lia.
    - intros m Hm. cbn in Hm. apply in_seq in Hm. lia.
    - unfold entries_of. rewrite entries_nodes_gen. apply NoDup_filter, seq_NoDup.
    - intros e He. cbn [to_pgraph pnodes]. apply in_seq. apply entries_In in He.
      destruct He as [re [Hr _]]. pose proof (dom _ _ Hr). lia.
  Qed.

  (** * Part C: which nodes of the transformed plan are ancestors of a pruning root *)
  Lemma ids_of_registered i re :
    reg i = Some re -> exists ce, In ({| enode := i; esource := is_src re; estale := st i |}, ce) ids.
  Proof. intros Hr. apply entry_ids_complete. apply entries_In. cbn. exists re. auto. Qed.

  Lemma ids_inv e ce :
    In (e, ce) ids ->
    exists re, reg (enode e) = Some re /\ esource e = is_src re /\ estale e = st (enode e) /\
               enode e < n /\ n <= ce.
  Proof.
    intros H. apply entry_ids_In in H. destruct H as [He Hc]. apply entries_In in He.
    destruct He as [re [Hr [H1 H2]]]. exists re. repeat split; auto. eapply dom; eauto.
  Qed.

  Lemma es_NoDup : NoDup (map enode es).
  Proof. apply R0_tctx. Qed.

  (** the redirected output *)
  Lemma redirect_cases :
    match output with
    | None => redirect n es output = None
    | Some o => match reg o with
                | Some re => exists e ce, In (e, ce) ids /\ enode e = o /\
                                          redirect n es output = Some (read_id ce)
                | None => redirect n es output = Some o
                end
    end.
  Proof.
    destruct output as [o|]; [|reflexivity]. destruct (reg o) as [re|] eqn:Er.
    - destruct (ids_of_registered o re Er) as [ce Hin]. eexists; exists ce. split; [exact Hin|].
      split; [reflexivity|]. exact (redirect_registered es n _ ce es_NoDup Hin).
    - apply redirect_unregistered. rewrite entries_registered. intros H. now apply H.
  Qed.

  Lemma roots_In v :
    In v roots <->
    (exists e ce, In (e, ce) ids /\ estale e = true /\ v = write_id ce) \/ redirect n es output = Some v.
  Proof.
    unfold prune_roots. rewrite in_app_iff, required_writes_iff.
    destruct (redirect n es output) as [r|]; cbn [opt_list In]; split.
    - intros [H | [H | []]]; [now left | right; now subst].
    - intros [H | H]; [now left | right; left; now inversion H].
    - intros [H | []]. now left.
    - intros [H | H]; [now left | discriminate].
  Qed.

  Lemma root_write e ce : In (e, ce) ids -> estale e = true -> In (write_id ce) roots.
  Proof. intros Hin Hst. apply roots_In. left. now exists e, ce. Qed.

  (** an original node is a root only as the (unregistered) output *)
  Lemma root_original i : i < n -> (In i roots <-> output = Some i /\ reg i = None).
  Proof.
    intros Hi. rewrite roots_In. pose proof redirect_cases as Hc. split.
    - intros [[e [ce [Hin [_ Heq]]]] | Hr].
      + apply ids_inv in Hin. destruct Hin as [_ [_ [_ [_ [_ Hge]]]]]. unfold write_id in Heq. lia.
      + destruct output as [o|]; [|rewrite Hc in Hr; discriminate].
        destruct (reg o) as [re|] eqn:Er.
        * destruct Hc as [e [ce [Hin [_ Hc]]]]. rewrite Hc in Hr. inversion Hr.
          apply ids_inv in Hin. destruct Hin as [_ [_ [_ [_ [_ Hge]]]]]. unfold read_id in *. lia.
        * rewrite Hc in Hr. inversion Hr; subst. auto.
    - intros [Ho Hr]. right. rewrite Ho in Hc. rewrite Hr in Hc. rewrite Ho. exact Hc.
  Qed.

  (** the read node of an entry is a root exactly when its node is the output *)
  Lemma root_read e ce : In (e, ce) ids -> (In (read_id ce) roots <-> output = Some (enode e)).
  Proof.
    intros Hin. rewrite roots_In. pose proof redirect_cases as Hc. split.
    - intros [[e' [ce' [Hin' [Hst' Heq]]]] | Hr].
      + exfalso. destruct (entry_ids_order _ _ _ _ _ _ Hin Hin') as [[-> ->] | [H | H]];
          unfold next_id, read_id, write_id in *; [lia | destruct (estale e); lia | rewrite Hst' in H; lia].
      + destruct output as [o|]; [|rewrite Hc in Hr; discriminate].
        destruct (reg o) as [re|] eqn:Er.
        * destruct Hc as [e' [ce' [Hin' [Heq Hc]]]]. rewrite Hc in Hr. inversion Hr as [Hrd].
          destruct (entry_ids_order _ _ _ _ _ _ Hin Hin') as [[-> _] | [H | H]];
            unfold next_id, read_id in *; [now subst | destruct (estale e); lia | destruct (estale e'); lia].
        * rewrite Hc in Hr. inversion Hr; subst. pose proof (out_ok _ eq_refl).
          apply ids_inv in Hin. destruct Hin as [_ [_ [_ [_ [_ Hge]]]]]. unfold read_id in *. lia.
    - intros Ho. right. rewrite Ho. exact (redirect_registered es n e ce es_NoDup Hin).
  Qed.

  Lemma Q_edge v w : edge (to_graph Q) v w <-> exists x, In x (pedges Q) /\ esrc x = v /\ edst x = w.
  Proof. apply pedge_iff'. Qed.

  Lemma P_no_loop a k : ~ In (mke a a k) (pedges P).
  Proof. intros H. apply P_edge_lt in H. cbn in H. lia. Qed.

  Lemma active_pulls c : activeg c = true -> pullsg c = true.
  Proof.
    destruct (reg c) as [rc|] eqn:Er; [|now rewrite (need_unregistered_eq reg st output p c Er)].
    unfold active_g, pulls_g. destruct (nth_error p c) as [nd|] eqn:Ec.
    - rewrite (need_registered reg st output p c nd rc Ec Er). cbn. intros H. now apply andb_true_iff in H.
    - apply nth_error_None in Ec. now rewrite need_table_overflow.
  Qed.

  Lemma reach_root_anc v w : edge (to_graph Q) v w -> In w roots -> anc_of (to_graph Q) roots v.
  Proof. intros He Hw. right. exists w. split; [assumption | now apply reach1]. Qed.

  (** the heart: an original node is an ancestor of a root (a write node of a stale entry, or the
      redirected output) exactly when L1 says it computes.  Backward induction on the index. *)
  Lemma needed_original : forall k i,
    n <= i + k -> i < n -> (anc_of (to_graph Q) roots i <-> activeg i = true).
  Proof.
    induction k as [|k IH]; intros i Hk Hi; [lia|].
    destruct (nth_error p i) as [nd|] eqn:Ei; [|apply nth_error_None in Ei; lia].
    pose proof R0_tctx as Ht.
    destruct (reg i) as [re|] eqn:Er.
    - (* registered *)
      destruct (ids_of_registered i re Er) as [ce Hin].
      unfold active_g. rewrite (need_registered reg st output p i nd re Ei Er). cbn [snd].
      rewrite andb_true_iff, negb_true_iff. split.
      + intros Ha. apply anc_of_step in Ha. destruct Ha as [Hr | [w [He _]]].
        * apply (root_original i Hi) in Hr. destruct Hr as [_ Hr]. congruence.
        * apply Q_edge in He. destruct He as [x [Hx [Hs _]]].
          destruct (add_all_out_registered x _ _ _ _ ce Ht Hin (P_no_loop i) Hx Hs) as [_ [H1 H2]].
          cbn in H1, H2. auto.
      + intros [Hst Hso].
        destruct (C09_write_then_read P n es _ ce Ht Hin) as [_ [_ Hw]]. cbn in Hw.
        destruct (Hw Hst Hso) as [Hval _].
        apply (reach_root_anc i (write_id ce)); [apply pedge_iff; now exists (KPos 1)|].
        now apply (root_write _ ce Hin).
    - (* no value store *)
      assert (Hnr : ~ In i (map enode es)) by (rewrite entries_registered; intros H; now apply H).
      rewrite <- (need_unregistered_eq reg st output p i Er), (pulls_unfold reg st output p wf i nd Ei Er).
      split.
      + intros Ha. apply anc_of_step in Ha. destruct Ha as [Hr | [w [He Hw]]].
        * apply (root_original i Hi) in Hr. now left.
        * right. apply Q_edge in He. destruct He as [x [Hx [Hs Hd]]].
          assert (Hnr' : ~ In (esrc x) (map enode es)) by now rewrite Hs.
          destruct (add_all_out_unregistered x _ _ _ Ht Hx ltac:(lia) Hnr')
            as [Hp | [e' [c' [Hin' [Hst' [Hso' [_ [kk Hp]]]]]]]].
          -- destruct (P_edge_lt x Hp) as [H1 H2]. rewrite Hs, Hd in *.
             destruct (nth_error p w) as [ndw|] eqn:Ew; [|apply nth_error_None in Ew; lia].
             exists w, ndw. split; [exact Ew|]. split.
             ++ rewrite <- Hs. apply P_edge_pred; [assumption | now rewrite Hd].
             ++ apply active_pulls. apply (IH w); [lia | assumption | assumption].
          -- rewrite Hs in Hp. destruct (P_edge_lt _ Hp) as [H1 H2]. cbn in H1, H2.
             destruct (nth_error p (enode e')) as [ndw|] eqn:Ew; [|apply nth_error_None in Ew; lia].
             exists (enode e'), ndw. split; [exact Ew|]. split.
             ++ apply (P_edge_pred _ ndw Hp Ew).
             ++ destruct (ids_inv _ _ Hin') as [re' [Hr' [_ [Hst'' _]]]].
                unfold pulls_g. rewrite (need_registered reg st output p _ ndw re' Ew Hr'). cbn. congruence.
      + intros [Ho | [c [ndc [Hc [Hin Hpc]]]]].
        * left. apply (root_original i Hi). auto.
        * pose proof (wf c ndc Hc i Hin) as Hlt.
          assert (Hcn : c < n) by (apply nth_error_Some; congruence).
          destruct (P_pred_edge i c ndc Hc Hin) as [kk Hx].
          assert (Hkeep : edge (to_graph Q) i c).
          { apply pedge_iff. exists kk. apply add_all_keeps; [exact Ht | exact Hx | exact Hnr]. }
          assert (Hact : activeg c = true -> anc_of (to_graph Q) roots i).
          { intros Hact. apply (anc_of_pred _ _ i c Hkeep). apply (IH c); [lia | assumption | assumption]. }
          destruct (reg c) as [rc|] eqn:Erc.
          -- unfold pulls_g in Hpc. rewrite (need_registered reg st output p c ndc rc Hc Erc) in Hpc.
             cbn in Hpc. destruct (is_src rc) eqn:Esrc.
             ++ destruct (ids_of_registered c rc Erc) as [cc Hinc].
                pose proof (barrier_unregistered P n es _ cc _ Ht Hinc Hpc Esrc Hx eq_refl Hnr) as Hb.
                cbn [esrc mke] in Hb.
                apply (reach_root_anc i (write_id cc)); [apply pedge_iff; now exists KDep|].
                now apply (root_write _ cc Hinc).
             ++ apply Hact. unfold active_g. rewrite (need_registered reg st output p c ndc rc Hc Erc).
                cbn. now rewrite Hpc, Esrc.
          -- apply Hact. now rewrite <- (need_unregistered_eq reg st output p c Erc).
  Qed.

  Theorem ancestor_iff_active i : i < n -> (anc_of (to_graph Q) roots i <-> activeg i = true).
  Proof. intros Hi. apply (needed_original n i); lia. Qed.

  (** * Part D: the refinement theorems *)
  Lemma phys_sound v : In v (pnodes phys) -> In v (pnodes Q) /\ anc_of (to_graph Q) roots v.
  Proof. rewrite physical_fst. apply prune_nodes_sound. Qed.

  Lemma phys_complete v :
    In v (pnodes Q) -> anc_of (to_graph Q) roots v ->
    is_lit Q v = false \/ redirect n es output = Some v -> In v (pnodes phys).
  Proof. rewrite physical_fst. apply prune_nodes_complete. Qed.

  Lemma original_in_Q i : i < n -> In i (pnodes Q).
  Proof.
    intros Hi. apply (transform_nodes i es P n R0_tctx). left. cbn. apply in_seq. lia.
  Qed.

  Lemma original_kind i nd : nth_error p i = Some nd -> is_lit Q i = negb (is_call nd).
  Proof.
    intros Hi. unfold is_lit. rewrite (transform_kind_old P n es i R0_tctx).
    - cbn. rewrite Hi. now destruct (is_call nd).
    - cbn. apply in_seq. assert (i < n) by (apply nth_error_Some; congruence). lia.
  Qed.

  (** (R2), soundness: an original node that survives in the physical plan computes according to L1 *)
  Theorem R2_kept_sound i : i < n -> In i (pnodes phys) -> activeg i = true.
  Proof. intros Hi Hk. apply (ancestor_iff_active i Hi). now apply phys_sound. Qed.

  (** (R2), completeness: a node that computes according to L1 survives, unless it is an unregistered
      Literal other than the output (which [_prune_literal_if_trivial] may have elided) *)
  Theorem R2_kept_complete i nd :
    nth_error p i = Some nd -> activeg i = true ->
    is_call nd = true \/ output = Some i \/ reg i <> None -> In i (pnodes phys).
  Proof.
    intros Hi Ha Hc. assert (Hlt : i < n) by (apply nth_error_Some; congruence).
    destruct (reg i) as [re|] eqn:Er.
    - destruct (ids_of_registered i re Er) as [ce Hin].
      unfold active_g in Ha. rewrite (need_registered reg st output p i nd re Hi Er) in Ha. cbn in Ha.
      apply andb_true_iff in Ha. destruct Ha as [Hst Hso]. apply negb_true_iff in Hso.
      destruct (C14_write_call_args_in_physical P n es output _ ce R0_tctx Hin Hst Hso) as [_ [_ [_ [H _]]]].
      exact H.
    - apply phys_complete; [now apply original_in_Q | now apply ancestor_iff_active |].
      destruct Hc as [Hc | [Hc | Hc]]; [| | congruence].
      + left. now rewrite (original_kind i nd Hi), Hc.
      + right. pose proof redirect_cases as Hr. rewrite Hc in Hr. rewrite Er in Hr. now rewrite Hc.
  Qed.

  (** (R2) for Calls, all three registry cases at once: kept iff active *)
  Theorem R2_calls i nd :
    nth_error p i = Some nd -> is_call nd = true -> (In i (pnodes phys) <-> activeg i = true).
  Proof.
    intros Hi Hc. assert (Hlt : i < n) by (apply nth_error_Some; congruence). split.
    - now apply R2_kept_sound.
    - intros Ha. apply (R2_kept_complete i nd Hi Ha). now left.
  Qed.

  (** (R2) no value store: kept iff pulled (Calls and the output; soundness for every node) *)
  Theorem R2_unregistered i nd :
    nth_error p i = Some nd -> reg i = None ->
    (In i (pnodes phys) -> pullsg i = true) /\
    (is_call nd = true \/ output = Some i -> (In i (pnodes phys) <-> pullsg i = true)).
  Proof.
    intros Hi Hr. assert (Hlt : i < n) by (apply nth_error_Some; congruence).
    rewrite (need_unregistered_eq reg st output p i Hr). split; [now apply R2_kept_sound|].
    intros Hc. split; [now apply R2_kept_sound|]. intros Ha. apply (R2_kept_complete i nd Hi Ha).
    destruct Hc; auto.
  Qed.

  (** (R2) stored node (Call or Literal): kept iff stale *)
  Theorem R2_stored i re :
    reg i = Some re -> is_src re = false -> (In i (pnodes phys) <-> st i = true).
  Proof.
    intros Hr Hs. pose proof (dom _ _ Hr) as Hlt.
    destruct (nth_error p i) as [nd|] eqn:Ei; [|apply nth_error_None in Ei; lia].
    assert (Ha : activeg i = st i).
    { unfold active_g. rewrite (need_registered reg st output p i nd re Ei Hr). cbn. rewrite Hs. apply andb_true_r. }
    rewrite <- Ha. split; [now apply R2_kept_sound|]. intros H. apply (R2_kept_complete i nd Ei H).
    right. right. congruence.
  Qed.

  (** (R2) the [source] placeholder is never in the physical plan *)
  Theorem R2_source i re : reg i = Some re -> is_src re = true -> ~ In i (pnodes phys).
  Proof.
    intros Hr Hs Hk. pose proof (dom _ _ Hr) as Hlt.
    destruct (nth_error p i) as [nd|] eqn:Ei; [|apply nth_error_None in Ei; lia].
    apply (R2_kept_sound i Hlt) in Hk. unfold active_g in Hk.
    rewrite (need_registered reg st output p i nd re Ei Hr) in Hk. cbn in Hk. rewrite Hs in Hk.
    rewrite andb_false_r in Hk. discriminate.
  Qed.

  (** (R1) the write call of a stale stored node is in the physical plan; a write call exists only for
      stale entries ([write_id ce] of an up-to-date entry is the id of the NEXT entry's store literal,
      see [ex_write_id_overlap]), hence the guard [estale e = true] on the left *)
  Theorem R1_writes e ce :
    In (e, ce) ids -> esource e = false ->
    ((estale e = true /\ In (write_id ce) (pnodes phys)) <-> st (enode e) = true).
  Proof.
    intros Hin Hso. destruct (ids_inv e ce Hin) as [re [_ [_ [Hst _]]]]. rewrite <- Hst. split.
    - tauto.
    - intros H. split; [assumption|]. now apply (C09_write_survives P n es output e ce R0_tctx Hin).
  Qed.

  Definition written_g (i : nat) : bool :=
    match reg i with Some e => st i && negb (is_src e) | None => false end.

  Theorem R1_written e ce :
    In (e, ce) ids -> (estale e = true /\ esource e = false <-> written_g (enode e) = true).
  Proof.
    intros Hin. destruct (ids_inv e ce Hin) as [re [Hr [Hso [Hst _]]]]. unfold written_g.
    rewrite Hr, andb_true_iff, negb_true_iff, <- Hst, <- Hso. tauto.
  Qed.

  Lemma read_in_Q e ce : In (e, ce) ids -> In (read_id ce) (pnodes Q) /\ is_lit Q (read_id ce) = false.
  Proof.
    intros Hin. split.
    - apply (transform_nodes _ es P n R0_tctx). right. exists e, ce. auto.
    - unfold is_lit. destruct (transform_kinds es P n e ce R0_tctx Hin) as [_ [H _]]. cbn in H. now rewrite H.
  Qed.

  (** (R3), soundness without any extra hypothesis: a surviving read node is the output, or feeds an
      active consumer through an ARGUMENT edge, or is an argument of a stale source (whose Barrier waits
      for it) *)
  Theorem R3_reads_sound e ce :
    In (e, ce) ids -> In (read_id ce) (pnodes phys) ->
    output = Some (enode e) \/
    (exists c nd, nth_error p c = Some nd /\ In (enode e) (args nd) /\ activeg c = true) \/
    (exists c nd rc, nth_error p c = Some nd /\ In (enode e) (args nd) /\
                     reg c = Some rc /\ is_src rc = true /\ st c = true).
  Proof.
    intros Hin Hk. apply phys_sound in Hk. destruct Hk as [_ Ha]. apply anc_of_step in Ha.
    destruct Ha as [Hr | [w [He Hw]]]; [left; now apply (root_read e ce Hin)|]. right.
    apply Q_edge in He. destruct He as [x [Hx [Hs Hd]]].
    destruct (add_all_out_read x es P n e ce R0_tctx Hin Hx Hs)
      as [[Hk Hp] | [e' [c' [Hin' [Hst' [Hso' [_ [k [Hk Hp]]]]]]]]].
    - left. destruct (P_edge_lt _ Hp) as [H1 H2]. cbn in H1, H2. rewrite Hd in *.
      destruct (nth_error p w) as [ndw|] eqn:Ew; [|apply nth_error_None in Ew; lia].
      exists w, ndw. split; [exact Ew|]. split; [exact (P_nonDep_arg _ _ _ ndw Hp Hk Ew)|].
      now apply ancestor_iff_active.
    - right. destruct (P_edge_lt _ Hp) as [H1 H2]. cbn in H1, H2.
      destruct (nth_error p (enode e')) as [ndw|] eqn:Ew; [|apply nth_error_None in Ew; lia].
      destruct (ids_inv _ _ Hin') as [re' [Hr' [Hso'' [Hst'' _]]]].
      exists (enode e'), ndw, re'. split; [exact Ew|]. split; [exact (P_nonDep_arg _ _ _ ndw Hp Hk Ew)|].
      split; [assumption|]. split; congruence.
  Qed.

  Theorem R3_reads_complete e ce :
    In (e, ce) ids ->
    output = Some (enode e) \/
    (exists c nd, nth_error p c = Some nd /\ In (enode e) (args nd) /\ activeg c = true) ->
    In (read_id ce) (pnodes phys).
  Proof.
    intros Hin H. destruct (read_in_Q e ce Hin) as [HQ Hl]. apply phys_complete; [assumption | | now left].
    destruct H as [Ho | [c [nd [Hc [Ha Hact]]]]].
    - left. now apply (root_read e ce Hin).
    - destruct (P_arg_edge _ c nd Hc Ha) as [j Hx].
      assert (Hk : KPos j <> KDep) by discriminate.
      destruct (C09_consumers_on_read P n es e ce c (KPos j) R0_tctx Hin Hx Hk) as [Hy _].
      apply (anc_of_pred _ _ _ c); [apply pedge_iff; now exists (KPos j)|].
      apply ancestor_iff_active; [apply nth_error_Some; congruence | assumption].
  Qed.

  (** what the real API guarantees ([registry.source] creates a call without arguments; dependencies can
      only be added as plain Dependency edges) *)
  Definition src_no_args : Prop :=
    forall i re nd, reg i = Some re -> is_src re = true -> nth_error p i = Some nd -> args nd = [].

  (** (R3) reads: the closed form of L1 *)
  Theorem R3_reads e ce :
    src_no_args -> In (e, ce) ids ->
    (In (read_id ce) (pnodes phys) <->
     output = Some (enode e) \/
     exists c nd, nth_error p c = Some nd /\ In (enode e) (args nd) /\ activeg c = true).
  Proof.
    intros Hsrc Hin. split; [|now apply R3_reads_complete].
    intros Hk. destruct (R3_reads_sound e ce Hin Hk) as [H | [H | [c [nd [rc [Hc [Ha [Hr [Hs _]]]]]]]]]; auto.
    rewrite (Hsrc c rc nd Hr Hs Hc) in Ha. contradiction.
  Qed.

  Theorem R3_reads_table e ce :
    src_no_args -> In (e, ce) ids ->
    (In (read_id ce) (pnodes phys) <-> is_read_g reg st output p (enode e) = true).
  Proof.
    intros Hsrc Hin. rewrite (R3_reads e ce Hsrc Hin).
    destruct (ids_inv e ce Hin) as [re [Hr [_ [_ [Hlt _]]]]].
    destruct (nth_error p (enode e)) as [nd|] eqn:Ei; [|apply nth_error_None in Ei; lia].
    now rewrite (read_unfold reg st output p wf (enode e) nd re Ei Hr).
  Qed.
End Refine.

(** * The executable check of Link.v never reports a mismatch *)
Lemma eqb_of_iff a b : (a = true <-> b = true) -> Bool.eqb a b = true.
Proof.
  destruct a, b; cbn; intros [H1 H2]; auto; symmetry; auto.
Qed.

Lemma filter_nil_intro {A} (f : A -> bool) l : (forall x, In x l -> f x = false) -> filter f l = [].
Proof.
  induction l as [|a l IH]; intros H; cbn; [reflexivity|]. rewrite (H a) by now left.
  apply IH. intros x Hx. apply H. now right.
Qed.

Section Real.
  Variables (reg : registry) (sg : sstate) (fresh : option Z) (output : option nat) (p : plan).
  Hypothesis wf : wf_plan p.
  Hypothesis dom : forall i e, reg i = Some e -> i < length p.
  Hypothesis out_ok : forall o, output = Some o -> o < length p.
  Notation st := (is_stale reg sg fresh p).
  Notation phys := (fst (physical (to_pgraph p) (length p) (entries_of reg st (length p)) output)).
  Notation ids := (entry_ids (length p) (entries_of reg st (length p))).

  (** C04/C05: a Call is handed to the engine iff L1 says its function runs *)
  Theorem refine_exec i nd :
    nth_error p i = Some nd -> is_call nd = true ->
    (In i (pnodes phys) <-> is_exec reg sg fresh output p i = true).
  Proof.
    intros Hi Hc. rewrite (R2_calls reg st output p wf dom out_ok i nd Hi Hc).
    unfold is_exec. rewrite Hi, Hc. reflexivity.
  Qed.

  (** C05: the write call of an entry is in the physical plan iff L1 says the store is written *)
  Theorem refine_written e ce :
    In (e, ce) ids -> esource e = false ->
    ((estale e = true /\ In (write_id ce) (pnodes phys)) <-> is_written reg sg fresh p (enode e) = true).
  Proof.
    intros Hin Hso. rewrite (R1_writes reg st output p wf dom e ce Hin Hso).
    destruct (ids_inv reg st p dom e ce Hin) as [re [Hr [Hs _]]].
    unfold is_written, st_of. rewrite Hr, <- Hs, Hso. cbn. now rewrite andb_true_r.
  Qed.

  (** C09: the read call of an entry is in the physical plan iff L1 says the store is read *)
  Theorem refine_read e ce :
    src_no_args reg p -> In (e, ce) ids ->
    (In (read_id ce) (pnodes phys) <-> is_read reg sg fresh output p (enode e) = true).
  Proof. intros Hsrc Hin. exact (R3_reads_table reg st output p wf dom out_ok e ce Hsrc Hin). Qed.

  (** what [Link.link_mismatches] computes on every generated case is provably empty *)
  Theorem link_mismatches_nil : src_no_args reg p -> link_mismatches reg sg fresh output p = [].
  Proof.
    intros Hsrc. unfold link_mismatches. cbv zeta.
    rewrite (filter_nil_intro _ ids), (filter_nil_intro _ (seq 0 (length p))); [reflexivity | |].
    - intros i _. destruct (nth_error p i) as [nd|] eqn:Ei; [|reflexivity].
      destruct (is_call nd) eqn:Ec; [|reflexivity]. cbn [andb]. apply negb_false_iff, eqb_of_iff.
      rewrite inb_In. exact (refine_exec i nd Ei Ec).
    - intros [e ce] Hin. cbn [fst snd]. apply orb_false_iff. split.
      + apply negb_false_iff, eqb_of_iff. rewrite inb_In. now apply refine_read.
      + destruct (estale e) eqn:Est; [|reflexivity]. destruct (esource e) eqn:Eso; [reflexivity|].
        cbn [andb negb]. apply negb_false_iff, eqb_of_iff. rewrite inb_In.
        pose proof (refine_written e ce Hin Eso) as H. rewrite Est in H. tauto.
  Qed.
End Real.

(** * Part E: non-vacuity on the 6-node plan of Minimal.v (source 0 -> stored 1 -> unstored 2 -> stored 3,
    a plain Dependency 1 -> 3, the unwanted side call 4, the up-to-date stored call 5; output 3) *)
Example ex6_dom : forall i e, ex_reg6 i = Some e -> i < length ex_plan6.
Proof. intros i e H. do 6 (destruct i as [|i]; [cbn; lia|]). discriminate. Qed.
Example ex6_out : forall o, Some 3 = Some o -> o < length ex_plan6.
Proof. intros o H. inversion H. cbn. lia. Qed.
Example ex6_src : src_no_args ex_reg6 ex_plan6.
Proof.
  intros i re nd Hr Hs Hi. do 6 (destruct i as [|i]; [inversion Hi; subst; try reflexivity; inversion Hr; subst; discriminate|]).
  destruct i; discriminate.
Qed.

Definition ex6_st := is_stale ex_reg6 ex_sg6 None ex_plan6.
Definition ex6_es := entries_of ex_reg6 ex6_st (length ex_plan6).
Definition ex6_phys := fst (physical (to_pgraph ex_plan6) (length ex_plan6) ex6_es (Some 3)).

Example ex6_tctx : tctx (to_pgraph ex_plan6) (length ex_plan6) ex6_es.
Proof. exact (R0_tctx ex_reg6 ex6_st ex_plan6 ex_wf6 ex6_dom). Qed.

Example ex6_ids :
  entry_ids (length ex_plan6) ex6_es =
  [ ({| enode := 0; esource := true; estale := false |}, 6);
    ({| enode := 1; esource := false; estale := true |}, 8);
    ({| enode := 3; esource := false; estale := true |}, 11);
    ({| enode := 5; esource := false; estale := false |}, 14) ].
Proof. vm_compute. reflexivity. Qed.

Example ex6_phys_nodes : pnodes ex6_phys = [1; 2; 3; 6; 7; 8; 9; 10; 11; 12; 13].
Proof. vm_compute. reflexivity. Qed.

(** both sides of each iff, computed: kept original nodes = active nodes (1 2 3; not the source 0, not the
    side call 4, not the up-to-date 5); kept read nodes 7 9 12 (entries 0 1 3) = stores read, read node 15
    of entry 5 is pruned = store 5 not read; write nodes 10 13 kept = stores 1 3 written *)
Example ex6_both_sides :
  map (fun i => inb i (pnodes ex6_phys)) (seq 0 6) = map (active ex_reg6 ex_sg6 None (Some 3) ex_plan6) (seq 0 6)
  /\ map (active ex_reg6 ex_sg6 None (Some 3) ex_plan6) (seq 0 6) = [false; true; true; true; false; false]
  /\ map (fun c => inb (read_id c) (pnodes ex6_phys)) [6; 8; 11; 14] =
     map (is_read ex_reg6 ex_sg6 None (Some 3) ex_plan6) [0; 1; 3; 5]
  /\ map (is_read ex_reg6 ex_sg6 None (Some 3) ex_plan6) [0; 1; 3; 5] = [true; true; true; false]
  /\ map (fun c => inb (write_id c) (pnodes ex6_phys)) [8; 11] = [true; true]
  /\ map (is_written ex_reg6 ex_sg6 None ex_plan6) [0; 1; 3; 5] = [false; true; true; false].
Proof. vm_compute. repeat split; reflexivity. Qed.

(** instances obtained FROM the theorems *)
Example ex6_exec_2 : In 2 (pnodes ex6_phys) <-> is_exec ex_reg6 ex_sg6 None (Some 3) ex_plan6 2 = true.
Proof.
  unfold ex6_phys, ex6_es, ex6_st.
  exact (refine_exec ex_reg6 ex_sg6 None (Some 3) ex_plan6 ex_wf6 ex6_dom ex6_out 2 (ex_nd true [1] []) eq_refl eq_refl).
Qed.
Example ex6_exec_4 : ~ In 4 (pnodes ex6_phys).
Proof.
  unfold ex6_phys, ex6_es, ex6_st. intros H.
  apply (proj1 (refine_exec ex_reg6 ex_sg6 None (Some 3) ex_plan6 ex_wf6 ex6_dom ex6_out 4
                  (ex_nd true [2] []) eq_refl eq_refl)) in H.
  vm_compute in H. discriminate.
Qed.
Example ex6_in_1 :
  In ({| enode := 1; esource := false; estale := true |}, 8)
     (entry_ids (length ex_plan6) (entries_of ex_reg6 (is_stale ex_reg6 ex_sg6 None ex_plan6) (length ex_plan6))).
Proof. change (In ({| enode := 1; esource := false; estale := true |}, 8) (entry_ids (length ex_plan6) ex6_es)). rewrite ex6_ids. cbn. auto. Qed.
Example ex6_in_5 :
  In ({| enode := 5; esource := false; estale := false |}, 14)
     (entry_ids (length ex_plan6) (entries_of ex_reg6 (is_stale ex_reg6 ex_sg6 None ex_plan6) (length ex_plan6))).
Proof. change (In ({| enode := 5; esource := false; estale := false |}, 14) (entry_ids (length ex_plan6) ex6_es)). rewrite ex6_ids. cbn. auto 10. Qed.
Example ex6_read_1 : In (read_id 8) (pnodes ex6_phys).
Proof.
  unfold ex6_phys, ex6_es, ex6_st.
  apply (proj2 (refine_read ex_reg6 ex_sg6 None (Some 3) ex_plan6 ex_wf6 ex6_dom ex6_out _ 8 ex6_src ex6_in_1)).
  vm_compute. reflexivity.
Qed.
Example ex6_not_read_5 : ~ In (read_id 14) (pnodes ex6_phys).
Proof.
  unfold ex6_phys, ex6_es, ex6_st. intros H.
  pose proof (proj1 (refine_read ex_reg6 ex_sg6 None (Some 3) ex_plan6 ex_wf6 ex6_dom ex6_out _ 14 ex6_src ex6_in_5) H) as H'.
  clear H. vm_compute in H'. discriminate.
Qed.
Example ex6_link : link_mismatches ex_reg6 ex_sg6 None (Some 3) ex_plan6 = [].
Proof. exact (link_mismatches_nil ex_reg6 ex_sg6 None (Some 3) ex_plan6 ex_wf6 ex6_dom ex6_out ex6_src). Qed.

(** why (R1) carries the guard [estale e = true]: the up-to-date entry (0, 6) has no write node, and
    [write_id 6 = 8] is the store literal of the next entry, which IS in the physical plan *)
Example ex_write_id_overlap :
  In ({| enode := 0; esource := true; estale := false |}, 6) (entry_ids (length ex_plan6) ex6_es) /\
  write_id 6 = lit_id 8 /\ In (write_id 6) (pnodes ex6_phys).
Proof. rewrite ex6_ids, ex6_phys_nodes. cbn. auto 20. Qed.

(** * The one input class on which L1 and L2 differ: a stale SOURCE that takes a stored node as an
    ARGUMENT (impossible through [registry.source], which creates a call without arguments).  L2 wires the
    read node of the argument to the source's Barrier, a pruning root, so the read survives; L1's [is_read]
    only counts consumers that compute.  Hence [src_no_args] in [R3_reads] / [link_mismatches_nil]. *)
Definition cx_plan : plan := [ ex_nd true [] []; ex_nd true [0] [] ].
Definition cx_reg : registry := fun i =>
  match i with
  | 0 => Some {| store := 0; is_src := false |}
  | 1 => Some {| store := 1; is_src := true |}
  | _ => None
  end.
Definition cx_sg : sstate := fun s => match s with 0 => Some (7, 10)%Z | _ => None end.

Example cx_hyps :
  wf_plan cx_plan /\ (forall i e, cx_reg i = Some e -> i < length cx_plan) /\ ~ src_no_args cx_reg cx_plan.
Proof.
  split; [|split].
  - intros i nd Hi j Hj. do 2 (destruct i as [|i]; [inversion Hi; subst; cbn in Hj; intuition lia|]).
    destruct i; discriminate.
  - intros i e H. do 2 (destruct i as [|i]; [cbn; lia|]). discriminate.
  - intros H. specialize (H 1 _ _ eq_refl eq_refl eq_refl). discriminate.
Qed.

Example cx_link_mismatch : link_mismatches cx_reg cx_sg None None cx_plan = [0].
Proof. vm_compute. reflexivity. Qed.

Example cx_read_kept_not_read :
  let st := is_stale cx_reg cx_sg None cx_plan in
  entry_ids 2 (entries_of cx_reg st 2) =
    [ ({| enode := 0; esource := false; estale := false |}, 2);
      ({| enode := 1; esource := true; estale := true |}, 4) ] /\
  In (read_id 2) (pnodes (fst (physical (to_pgraph cx_plan) 2 (entries_of cx_reg st 2) None))) /\
  is_read cx_reg cx_sg None None cx_plan 0 = false.
Proof. vm_compute. repeat split; auto. Qed.
