(** Link between the two cache models: the L1 plan (topologically indexed, Cache/Logical.v) read as a
    keyed multigraph, transformed and pruned by L2 (Cache/Transform.v, Prune.v), must keep exactly the
    roles that L1's closed forms predict.  [link_mismatches] is evaluated on every generated case of
    the correspondence campaign (it is a check, not a theorem). Definitions only. *)
From Coq Require Import List Arith ZArith Bool.
Import ListNotations.
From UJ Require Import Engine.Engine Base.Topo Base.Graph Cache.Prune Cache.Transform Cache.Logical.

Fixpoint pos_edges (dst : nat) (k : nat) (l : list nat) : list kedge :=
  match l with [] => [] | a :: t => mke a dst (KPos k) :: pos_edges dst (S k) t end.

Fixpoint plan_edges (i : nat) (p : plan) : list kedge :=
  match p with
  | [] => []
  | nd :: rest =>
      pos_edges i 0 (args nd) ++ map (fun d => mke d i KDep) (nodup Nat.eq_dec (deps nd)) ++ plan_edges (S i) rest
  end.

Definition to_pgraph (p : plan) : pgraph :=
  {| pnodes := seq 0 (length p);
     pkind := fun n => match nth_error p n with
                       | Some nd => if is_call nd then KCall else KLit
                       | None => KCall end;
     pedges := plan_edges 0 p |}.

Definition entries_of (reg : registry) (st : nat -> bool) (n : nat) : list entry :=
  flat_map (fun i => match reg i with
                     | Some e => [{| enode := i; esource := is_src e; estale := st i |}]
                     | None => [] end) (seq 0 n).

(** node indices on which L1 and L2 disagree (expected: none) *)
Definition link_mismatches (reg : registry) (sg : sstate) (fresh : option Z) (output : option nat) (p : plan)
  : list nat :=
  let n := length p in
  let st := is_stale reg sg fresh p in
  let es := entries_of reg st n in
  let phys := fst (physical (to_pgraph p) n es output) in
  let kept x := inb x (pnodes phys) in
  let ids := entry_ids n es in
  let bad_entry ec :=
    let e := fst ec in let c := snd ec in
    negb (Bool.eqb (kept (read_id c)) (is_read reg sg fresh output p (enode e))) ||
    (estale e && negb (esource e) && negb (Bool.eqb (kept (write_id c)) (is_written reg sg fresh p (enode e)))) in
  map (fun ec => enode (fst ec)) (filter bad_entry ids) ++
  filter (fun i => match nth_error p i with
                   | Some nd => is_call nd && negb (Bool.eqb (kept i) (is_exec reg sg fresh output p i))
                   | None => false end) (seq 0 n).
