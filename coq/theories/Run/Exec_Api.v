(** Executable encoding of [Run/Api.v] for the correspondence check (harness/api_corr.py). *)
From Coq Require Import List ZArith Bool.
Import ListNotations.
From UJ Require Import Run.Api.
Local Open Scope Z_scope.

Definition oz (o : option Z) : Z := match o with Some z => z | None => -99 end.
Definition sz (s : sched) : Z := match s with SDefault => 0 | SRandom => 1 | SCheap => 2 end.
Definition enc_pass (p : pass) : list Z := [oz (p_workers p); oz (p_max_errors p); sz (p_sched p); Z.of_nat (p_attempts p)].
Definition enc_step (s : step) : list Z :=
  match s with
  | StEnter => [1] | StStaleCheck p => 2 :: enc_pass p | StPrune => [3] | StTransform => [4] | StTotals => [5]
  | StRun p => 6 :: enc_pass p | StExit => [7]
  end.

Definition dec_oz (z : Z) : option Z := if z =? -99 then None else Some z.
Definition dec_retry (kind n : Z) : retry_arg :=
  if kind =? 0 then RNone else if kind =? 1 then RInt n else RDecorator (Z.to_nat n).
Definition dec_sched (z : Z) : option sched := if z =? 0 then None else if z =? 1 then Some SDefault else Some SRandom.

(** exec_api registry output dry max_workers stale_workers max_errors retry_kind retry_n scheduler transform *)
Definition exec_api (reg out dry : bool) (mw sw me rk rn sc : Z) (tr : bool) : list Z :=
  match run_api {| a_registry := reg; a_output := out; a_dry_run := dry; a_max_workers := dec_oz mw;
                   a_stale_workers := dec_oz sw; a_max_errors := dec_oz me; a_retry := dec_retry rk rn;
                   a_scheduler := dec_sched sc; a_transform := tr |} with
  | Rejected => [0]
  | Steps l b => flat_map enc_step l ++ [8; if b then 1 else 0]
  end.
