(** Executable entry point for trace acceptance of the engine model. No proofs. *)
From Coq Require Import List Arith Bool.
Import ListNotations.
From UJ Require Import Engine.Engine.

Definition mkcfg (ns : list nat) (es : list (nat * nat)) (w : nat) (me : option nat) (failing : list nat) : cfg :=
  {| g := {| nodes := ns; edges := es |}; workers := w; max_errors := me;
     fails := fun n => existsb (Nat.eqb n) failing |}.

Definition choice_of (t : nat * nat * nat) : choice :=
  let '(tag, a, b) := t in
  match tag with
  | 0 => KGet a b | 1 => KReadStop a | 2 => KFnEnd a | 3 => KFailBlk a | 4 => KSucc a b
  | 5 => KSuccEnd a | 6 => KTaskDone a | 7 => KCoord | _ => KIntr
  end.

Definition item_eqb (a b : item) : bool :=
  match a, b with N x, N y => x =? y | DONE, DONE => true | _, _ => false end.
Fixpoint index_of (it : item) (l : list item) (i : nat) : nat :=
  match l with [] => i | h :: t => if item_eqb h it then i else index_of it t (S i) end.
Definition item_of_code (b : nat) : item := match b with 0 => DONE | S n => N n end.

(** tag 9 = "worker a dequeued the item with code b": resolved against the current queue (a bag). *)
Definition resolve (s : st) (t : nat * nat * nat) : choice :=
  let '(tag, a, b) := t in
  match tag with
  | 9 => KGet a (index_of (item_of_code b) (q s) 0)
  | _ => choice_of t
  end.

Fixpoint run_idx (c : cfg) (s : st) (ks : list (nat * nat * nat)) (i : nat) : st * option nat :=
  match ks with
  | [] => (s, None)
  | k :: rest => match next c s (resolve s k) with
                 | Some s' => run_idx c s' rest (S i)
                 | None => (s, Some i)
                 end
  end.

Definition enc_ev (e : ev) : list nat :=
  match e with
  | EStart n => [1; n] | EOk n => [2; n] | EFail n => [3; n] | ESkip n => [4; n] | EDone n => [5; n]
  | EIntr => [6; 0]
  end.

Definition enc_item (i : item) : nat := match i with N n => S n | DONE => 0 end.

(** [accepted; failing index; result code; raised node; errc; stop; unfinished; |q|; nsp; 999; hist oldest first...; 998; q items] *)
Definition exec_engine (ns : list nat) (es : list (nat * nat)) (w : nat) (me : option nat)
           (failing : list nat) (ks : list (nat * nat * nat)) : list nat :=
  let c := mkcfg ns es w me failing in
  let '(s, bad) := run_idx c (init c) ks 0 in
  let '(rc, rn) := match result s with
                   | None => (0, 0) | Some Returned => (1, 0) | Some (Raised n) => (2, n)
                   | Some Interrupted => (3, 0) end in
  [match bad with None => 1 | Some _ => 0 end; match bad with None => 0 | Some i => i end;
   rc; rn; errc s; (if stop s then 1 else 0); unfinished s; length (q s); nsp s; 999]
  ++ flat_map enc_ev (rev (hist s)) ++ [998] ++ map enc_item (q s).
