(** Executable entry point for harness/c13.py: the command sequence of one _add_value_store call. No proofs. *)
From Coq Require Import List Arith Bool.
Import ListNotations.
From UJ Require Import Obs.Alias.

Definition enc_key (k : ekey) : list nat :=
  match k with Pos i => [0; i; 0] | Kw name i => [1; i; name] | Dep => [2; 0; 0] end.

Definition enc_edge (e : edge) : list nat :=
  let '(s, d, k) := e in s :: d :: enc_key k.

Definition enc_cmd (c : cmd) : list nat :=
  match c with
  | Alloc (CNode k sc) => 1 :: k :: length sc :: sc
  | Alloc _ => [1; 999]
  | SetScope n sc => 2 :: n :: length sc :: sc
  | SetPlanScope p sc => 3 :: p :: length sc :: sc
  | AddNode g n => [4; g; n]
  | AddEdge g e => 5 :: g :: enc_edge e
  | RemoveEdge g e => 6 :: g :: enc_edge e
  | RemoveNode g n => [7; g; n]
  | SetEntry r n rv => [8; r; n; rv]
  | SetIsSource rv b => [9; rv; if b then 1 else 0]
  end.

Definition key_of (t : nat * nat * nat) : ekey :=
  let '(kind, i, name) := t in match kind with 0 => Pos i | 1 => Kw name i | _ => Dep end.

(** outs: (successor, (key kind, index, name)) *)
Definition exec_avs (gc pc next n : nat) (is_call : bool) (nscope : list nat) (nkind : nat)
           (is_source is_stale : bool) (preds : list nat) (outs : list (nat * (nat * nat * nat))) : list nat :=
  flat_map enc_cmd (avs_cmds gc pc next n is_call nscope nkind is_source is_stale preds
                             (map (fun o => (fst o, key_of (snd o))) outs)).
