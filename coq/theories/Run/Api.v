(** The plumbing of [uberjob.run] (src/uberjob/_run.py): which engine passes are started, in which order, and which of the
    caller's limits reach each of them.  The passes themselves are [Engine.v] (with the limits as its [cfg]), the stale
    check's decision is [Cache/Logical.v], the plan transformation [Cache/Transform.v].

    An engine pass is observed from outside as the keyword arguments of [run_function_on_graph] plus the number of
    attempts the [retry] wrapper grants (measured with a probe that always fails). *)
From Coq Require Import List Arith ZArith Bool Lia.
Import ListNotations.

Inductive sched := SDefault | SRandom | SCheap.

(** retry argument: None | an int | a caller-supplied decorator (identified by the attempts it grants) *)
Inductive retry_arg := RNone | RInt (n : Z) | RDecorator (attempts : nat).

Record args := {
  a_registry : bool;                 (* a registry with at least one entry was given *)
  a_output : bool;
  a_dry_run : bool;
  a_max_workers : option Z;
  a_stale_workers : option Z;
  a_max_errors : option Z;           (* None = run as much as possible *)
  a_retry : retry_arg;
  a_scheduler : option sched;        (* None = default *)
  a_transform : bool                 (* transform_physical given *)
}.

(** what an engine pass receives *)
Record pass := {
  p_workers : option Z;              (* worker_count; None = the engine's default *)
  p_max_errors : option Z;           (* Some 0 for the stale check *)
  p_sched : sched;
  p_attempts : nat                   (* attempts granted to each operation *)
}.

Inductive step :=
| StEnter                            (* progress_observer.__enter__ *)
| StStaleCheck (p : pass)            (* run_function_on_graph of _get_stale_nodes *)
| StPrune                            (* prune_plan without registry *)
| StTransform                        (* the caller's transform_physical *)
| StTotals                           (* run totals announced *)
| StRun (p : pass)                   (* run_function_on_graph of run_physical *)
| StExit.                            (* progress_observer.__exit__ *)

Inductive outcome := Rejected | Steps (l : list step) (returns_plan : bool).

Definition attempts_of (r : retry_arg) : option nat :=
  match r with
  | RNone => Some 1
  | RInt n => if (n <? 1)%Z then None else Some (Z.to_nat n)     (* create_retry raises ValueError below 1 *)
  | RDecorator k => Some k
  end.

Definition valid (a : args) : bool :=
  match a_max_workers a with Some w => (1 <=? w)%Z | None => true end &&
  match a_stale_workers a with Some w => (1 <=? w)%Z | None => true end &&
  match a_max_errors a with Some e => (0 <=? e)%Z | None => true end &&
  match attempts_of (a_retry a) with Some _ => true | None => false end.

Definition sched_of (s : option sched) : sched := match s with Some x => x | None => SDefault end.

Definition run_api (a : args) : outcome :=
  if negb (valid a) then Rejected else
  match attempts_of (a_retry a) with
  | None => Rejected
  | Some att =>
    let stale_w := match a_stale_workers a with Some w => Some w | None => a_max_workers a end in
    let first :=
      if a_registry a
      then [StStaleCheck {| p_workers := stale_w; p_max_errors := Some 0%Z; p_sched := SCheap; p_attempts := att |}]
      else [StPrune] in
    let tr := if a_transform a then [StTransform] else [] in
    let last :=
      if a_dry_run a then []
      else [StRun {| p_workers := a_max_workers a; p_max_errors := a_max_errors a;
                     p_sched := sched_of (a_scheduler a); p_attempts := att |}] in
    Steps (StEnter :: first ++ tr ++ [StTotals] ++ last ++ [StExit]) (a_dry_run a)
  end.

(** * Theorems *)

Definition set_dry (a : args) (d : bool) : args :=
  {| a_registry := a_registry a; a_output := a_output a; a_dry_run := d; a_max_workers := a_max_workers a;
     a_stale_workers := a_stale_workers a; a_max_errors := a_max_errors a; a_retry := a_retry a;
     a_scheduler := a_scheduler a; a_transform := a_transform a |}.

Definition is_run (s : step) : bool := match s with StRun _ => true | _ => false end.

(** C14: a dry run performs exactly the steps of the real run with the same arguments - the same stale check with the same
    workers and retry, the same transformation - except that the engine pass over the physical plan is left out. *)
Theorem dry_run_is_real_run_without_execution a l b :
  run_api (set_dry a false) = Steps l b ->
  run_api (set_dry a true) = Steps (filter (fun s => negb (is_run s)) l) true.
Proof.
  unfold run_api. cbn [set_dry a_dry_run a_registry a_transform a_max_workers a_stale_workers a_max_errors a_retry a_scheduler].
  assert (Hv : valid (set_dry a true) = valid (set_dry a false)) by reflexivity.
  rewrite Hv. destruct (valid (set_dry a false)); cbn [negb]; [|discriminate].
  destruct (attempts_of (a_retry a)) as [att|]; [|discriminate].
  intros H. injection H as <- <-.
  destruct (a_registry a), (a_transform a); reflexivity.
Qed.

(** a dry run never starts the engine on the physical plan *)
Theorem dry_run_no_execution a l b : a_dry_run a = true -> run_api a = Steps l b -> b = true /\ forallb (fun s => negb (is_run s)) l = true.
Proof.
  unfold run_api. intros Hd. rewrite Hd. destruct (valid a); cbn [negb]; [|discriminate].
  destruct (attempts_of (a_retry a)); [|discriminate]. intros H. injection H as <- <-.
  split; [reflexivity|]. destruct (a_registry a), (a_transform a); reflexivity.
Qed.

(** C10: the limits reach the passes unchanged: the run pass gets max_workers, max_errors and the scheduler; the stale
    check gets stale_check_max_workers, or max_workers when that is not given, and tolerates no error; both grant each
    operation the same number of attempts *)
Theorem limits_reach_the_engine a l b p :
  run_api a = Steps l b ->
  (In (StRun p) l ->
     p_workers p = a_max_workers a /\ p_max_errors p = a_max_errors a /\ p_sched p = sched_of (a_scheduler a) /\
     attempts_of (a_retry a) = Some (p_attempts p)) /\
  (In (StStaleCheck p) l ->
     p_workers p = match a_stale_workers a with Some w => Some w | None => a_max_workers a end /\
     p_max_errors p = Some 0%Z /\ attempts_of (a_retry a) = Some (p_attempts p)).
Proof.
  unfold run_api. destruct (valid a); cbn [negb]; [|discriminate].
  destruct (attempts_of (a_retry a)) as [att|] eqn:Ea; [|discriminate].
  intros H. injection H as <- <-. split; intros Hin.
  - destruct (a_registry a), (a_transform a), (a_dry_run a); cbn in Hin;
      repeat (destruct Hin as [Hin|Hin]; [try discriminate; try (injection Hin as <-; cbn; auto)|]); try contradiction.
  - destruct (a_registry a), (a_transform a), (a_dry_run a); cbn in Hin;
      repeat (destruct Hin as [Hin|Hin]; [try discriminate; try (injection Hin as <-; cbn; auto)|]); try contradiction.
Qed.

(** C15/C07: whatever the arguments, an accepted run enters the observer first and exits it last, and out-of-range limits
    are rejected before anything is started *)
Theorem observer_brackets a l b : run_api a = Steps l b -> exists body, l = StEnter :: body ++ [StExit] /\ ~ In StEnter body /\ ~ In StExit body.
Proof.
  unfold run_api. destruct (valid a); cbn [negb]; [|discriminate].
  destruct (attempts_of (a_retry a)); [|discriminate]. intros H. injection H as <- <-.
  destruct (a_registry a), (a_transform a), (a_dry_run a); cbn;
    match goal with |- exists body, StEnter :: ?l = _ /\ _ => exists (removelast l) end;
    cbn; (split; [reflexivity|]); (split; intros X; repeat (destruct X as [X|X]; [discriminate|]); exact X).
Qed.

Theorem invalid_limits_rejected a :
  (exists w, a_max_workers a = Some w /\ (w < 1)%Z) \/ (exists w, a_stale_workers a = Some w /\ (w < 1)%Z) \/
  (exists e, a_max_errors a = Some e /\ (e < 0)%Z) \/ (exists n, a_retry a = RInt n /\ (n < 1)%Z) ->
  run_api a = Rejected.
Proof.
  intros H. unfold run_api. assert (valid a = false) as ->; [|reflexivity].
  unfold valid. destruct H as [[w [E L]]|[[w [E L]]|[[e [E L]]|[n [E L]]]]]; rewrite E.
  - assert ((1 <=? w)%Z = false) as -> by (apply Z.leb_gt; lia). reflexivity.
  - assert ((1 <=? w)%Z = false) as -> by (apply Z.leb_gt; lia). now rewrite andb_false_r.
  - assert ((0 <=? e)%Z = false) as -> by (apply Z.leb_gt; lia). now rewrite !andb_false_r.
  - cbn [attempts_of]. assert ((n <? 1)%Z = true) as -> by (apply Z.ltb_lt; lia). now rewrite !andb_false_r.
Qed.

(** non-vacuity *)
Example ex_args : args :=
  {| a_registry := true; a_output := true; a_dry_run := false; a_max_workers := Some 4%Z; a_stale_workers := None;
     a_max_errors := Some 1%Z; a_retry := RInt 3; a_scheduler := Some SRandom; a_transform := true |}.
Example ex_run :
  run_api ex_args =
  Steps [StEnter;
         StStaleCheck {| p_workers := Some 4%Z; p_max_errors := Some 0%Z; p_sched := SCheap; p_attempts := 3 |};
         StTransform; StTotals;
         StRun {| p_workers := Some 4%Z; p_max_errors := Some 1%Z; p_sched := SRandom; p_attempts := 3 |};
         StExit] false.
Proof. reflexivity. Qed.
