(** Executable entry points of Store/Codec.v for the correspondence harness. No proofs. *)
From Coq Require Import List Arith Bool ZArith.
Import ListNotations.
From UJ Require Import Store.FS Store.Staged Store.Codec Run.Exec_Staged.
Local Open Scope Z_scope.

(** what open(newline=None).read() returns for decoded text [s] *)
Definition exec_univ_nl (s : list Z) : list Z := univ_nl s.

(** what reaches the encoder when [s] is written through open(newline=None | "") on POSIX *)
Definition exec_text_out (raw : bool) (s : list Z) : list Z := text_out raw s.

(** TextFileStore(encoding="latin-1"): bytes on disk ++ [-1] ++ string read back ([-2] if unreadable) *)
Definition exec_text_store (raw : bool) (s : list Z) : list Z :=
  let w := store_write text (text_ser latin1_enc raw) STAGING TARGET s (init_state None None) in
  let disk := match read_file (fst w) TARGET with Some b => map Z.of_nat b | None => [-3] end in
  disk ++ [-1] ++
  match store_read text (text_deser latin1_dec raw) TARGET (fst w) with
  | Some t => t
  | None => [-2]
  end.

(** A history of writes (0) and removals (1) of one path: after each step
    [mtime present?; did the observed mtime stay ahead of every earlier one?] *)
Fixpoint exec_presence_go (ops : list nat) (s : state) (prev : option Z) : list nat :=
  match ops with
  | [] => []
  | o :: rest =>
      let s' := match o with
                | 0%nat => fst (store_write bytes bin_ser STAGING TARGET [1%nat] s)
                | _ => fst (apply (Remove TARGET) s)
                end in
      let m := store_mtime TARGET s' in
      flag (match m with Some _ => true | None => false end) ::
      flag (match prev, m with Some a, Some b => Z.ltb a b | _, _ => true end) ::
      exec_presence_go rest s' (match m with Some _ => m | None => prev end)
  end.

Definition exec_presence (ops : list nat) : list nat := exec_presence_go ops (init_state None None) None.
