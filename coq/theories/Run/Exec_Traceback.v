(** Executable entry points used by the correspondence harness (flat nat encodings). No proofs. *)
From Coq Require Import List Arith Bool.
Import ListNotations.
From UJ Require Import Obs.Traceback.

Definition mkframe (t : nat * nat * nat) : frame :=
  let '(a, b, c) := t in {| fname := a; fpath := b; fline := c |}.

Definition flat_frames (l : list frame) : list nat :=
  flat_map (fun f => [fname f; fpath f; fline f]) l.

(** [ok; truncated; nframes; name; path; line; ...] *)
Definition flat_sframe (o : option sframe) : list nat :=
  match o with
  | None => [0]
  | Some s => 1 :: (if struncated s then 1 else 0) :: length (sframes s) :: flat_frames (sframes s)
  end.

Definition entry_of_nat (n : nat) : entry :=
  match n with 0 => ECall | 1 => EGather | 2 => EUnpack | 3 => ERegAdd | 4 => ERegSource | _ => ERunOutput end.

Definition exec_capture (fixed : bool) (e : nat) (stack : list (nat * nat * nat)) : list nat :=
  internal_frames fixed (entry_of_nat e) :: flat_sframe (captured fixed (entry_of_nat e) (map mkframe stack)).

Definition flat_rline (r : rline) : list nat :=
  match r with RTrunc => [0] | RFrame f => [1; fname f; fpath f; fline f] end.

(** render of the chain captured from [stack]; [ipy] = path ids that contain "/IPython/core/". *)
Definition exec_render (fixed : bool) (e : nat) (ipy : list nat) (stack : list (nat * nat * nat)) : list nat :=
  match captured fixed (entry_of_nat e) (map mkframe stack) with
  | None => [99]
  | Some s => flat_map flat_rline (render (fun f => existsb (Nat.eqb (fpath f)) ipy) s)
  end.
