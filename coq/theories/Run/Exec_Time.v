(** Executable entry points of Store/Time.v for the correspondence harness. No proofs. *)
From Coq Require Import List Arith Bool ZArith.
Import ListNotations.
From UJ Require Import Store.Time.
Local Open Scope Z_scope.

(** [_to_naive_utc_time r] in the zone given by an offset table; second component: the instant r denotes *)
Definition exec_conv (fixed : bool) (tr : list (Z * Z)) (d : Z) (r : repr) : list Z :=
  [to_naive_utc fixed (table_zone tr d) r; denote (table_zone tr d) r].

(** the model zone at instant i: [offset; fold bit of fromtimestamp(i); instant recovered from the naive local form;
    instant the same wall time denotes with the other fold value] *)
Definition exec_zone_at (tr : list (Z * Z)) (d : Z) (i : Z) : list Z :=
  let z := table_zone tr d in
  [off z i; if zfold z i then 1 else 0; loc z (i + off z i) (zfold z i); loc z (i + off z i) (negb (zfold z i))].

Definition exec_stale (fixed : bool) (tr : list (Z * Z)) (d : Z) (fresh : option repr) (plan : list (node repr)) : list nat :=
  stale_nodes (to_naive_utc fixed (table_zone tr d)) fresh plan.

Definition exec_stale_inst (fresh : option Z) (plan : list (node Z)) : list nat :=
  stale_nodes (fun i => i) fresh plan.
