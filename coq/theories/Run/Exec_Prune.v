(** Flat executable entry points for harness/prune_corr.py. No proofs.
    An edge is (src, dst, kc, a, b) with key KPos a = (0,a,0), KKw a b = (1,a,b), KDep = (2,0,0).
    Output: [1; #nodes; nodes...; then 5 numbers per edge] or [0] when the real function raises
    NetworkXError (a required/output node that is not in the plan). *)
From Coq Require Import List Arith Bool.
Import ListNotations.
From UJ Require Import Engine.Engine Base.Topo Base.Graph Cache.Prune.

Definition fedge := (nat * nat * nat * nat * nat)%type.

Definition mkkey (kc a b : nat) : ekey :=
  match kc with 0 => KPos a | 1 => KKw a b | _ => KDep end.
Definition mkedge (t : fedge) : kedge :=
  let '(s, d, kc, a, b) := t in {| esrc := s; edst := d; ekind := mkkey kc a b |}.
Definition mkplan (ns lits : list nat) (es : list fedge) : pgraph :=
  {| pnodes := ns; pkind := fun n => if inb n lits then KLit else KCall; pedges := map mkedge es |}.

Definition flat_key (k : ekey) : list nat :=
  match k with KPos i => [0; i; 0] | KKw n i => [1; n; i] | KDep => [2; 0; 0] end.
Definition flat_plan (p : pgraph) : list nat :=
  1 :: length (pnodes p) :: pnodes p ++ flat_map (fun e => esrc e :: edst e :: flat_key (ekind e)) (pedges p).

(** [out] = [] for None, [o] for Some o *)
Definition exec_prune (ns lits : list nat) (es : list fedge) (req out : list nat) : list nat :=
  let p := mkplan ns lits es in
  let o := match out with [] => None | x :: _ => Some x end in
  if prune_ok p req o then flat_plan (prune_plan p req o) else [0].

(** [usepred = 0]: predicate None; otherwise the predicate is membership in [predtrue] *)
Definition exec_psl (ns lits : list nat) (es : list fedge) (usepred : nat) (predtrue : list nat) : list nat :=
  let p := mkplan ns lits es in
  flat_plan (prune_source_literals p (fun n => match usepred with 0 => true | _ => inb n predtrue end)).

Definition exec_run_graph (ns lits : list nat) (es : list fedge) (out : list nat) : list nat :=
  let p := mkplan ns lits es in
  let o := match out with [] => None | x :: _ => Some x end in
  if prune_ok p [] o then flat_plan (run_graph p o) else [0].
