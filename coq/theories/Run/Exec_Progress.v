(** Executable entry points for harness/c20.py: a whole observation (notifications + render points) of one
    bundled observer, flattened to [list Z].  No proofs. *)
From Coq Require Import List Arith ZArith QArith Bool.
Import ListNotations.
From UJ Require Import Obs.Progress Obs.Render.
Local Open Scope Z_scope.

(** value table rows: (id, type-string rank, repr rank); comparison table rows: (x, y, code) with
    code 0 = TypeError, 1 = False, 2 = True for [x < y] (only pairs with equal type strings are looked up). *)
Definition tbl_ty (tbl : list (nat * nat * nat)) (x : nat) : nat :=
  match find (fun r => Nat.eqb (fst (fst r)) x) tbl with Some r => snd (fst r) | None => 0%nat end.
Definition tbl_repr (tbl : list (nat * nat * nat)) (x : nat) : nat :=
  match find (fun r => Nat.eqb (fst (fst r)) x) tbl with Some r => snd r | None => 0%nat end.
Definition tbl_lt (cmp : list (nat * nat * nat)) (x y : nat) : option bool :=
  match find (fun r => Nat.eqb (fst (fst r)) x && Nat.eqb (snd (fst r)) y) cmp with
  | Some r => match snd r with 0%nat => None | 1%nat => Some false | _ => Some true end
  | None => None
  end.

Definition kind_of_nat (n : nat) : kind := match n with 0%nat => Console | 1%nat => Html | _ => IPy end.

Definition zb (b : bool) : Z := if b then 1 else 0.
Definition zn (n : nat) : Z := Z.of_nat n.
Definition flat_q (q : Q) : list Z := let r := Qred q in [Qnum r; Zpos (Qden r)].
Definition flat_scope (s : scope) : list Z := zn (length s) :: map zn s.

Definition flat_sstate (ks : key * sstate) : list Z :=
  zn (fst (fst ks)) :: flat_scope (snd (fst ks)) ++
  [completed (snd ks); failed (snd ks); running (snd ks); total (snd ks)] ++ flat_q (welapsed (snd ks)).

Definition flat_row (r : row) : list Z :=
  (match r_scope r with None => [0] | Some s => 1 :: flat_scope s end) ++
  [zb (ps_paren (r_ps r)); ps_c (r_ps r); ps_r (r_ps r); ps_t (r_ps r); ps_f (r_ps r); r_esecs r] ++
  zn (length (r_extra r)) :: flat_map flat_q (r_extra r).

Definition flat_output (o : output) : list Z :=
  zn (length o) :: flat_map (fun sr => zn (fst sr) :: zn (length (snd sr)) :: flat_map flat_row (snd sr)) o.

Definition err_code (e : err) : Z :=
  match e with KeyError => 1 | ZeroDivisionError => 2 | ValueErrorEmptyMax => 3 | TypeErrorCompare => 4 | TraitError => 5 end.

(** [0; state...; outputs (oldest first)] or [error code] *)
Definition exec_observe (k : nat) (fixed : bool) (vals cmp : list (nat * nat * nat)) (mi start : Q) (evs : list ev)
  : list Z :=
  match run_obs output (render (tbl_ty vals) (tbl_lt cmp) (tbl_repr vals) (kind_of_nat k) fixed) mi start evs with
  | Err e => [err_code e]
  | Ok (o, outs) =>
      let st := o_state o in
      0 :: zn (length (mapping st)) :: flat_map flat_sstate (mapping st) ++
      [running_count st; zn (length (running_set st)); zb (o_stale o); zn (o_nexc o); zn (o_newidx o);
       zn (length (o_skipped o))] ++ map zn (o_skipped o) ++ flat_q (prev_time st) ++
      zn (length outs) :: flat_map flat_output (rev outs)
  end.

(** the specification side: [num; den] of the busy time of the notifications, and of the sum of elapsed *)
Definition exec_busy (start : Q) (evs : list ev) : list Z := flat_q (busy start (rev evs)) ++ [active (rev evs)].

Definition exec_wf (so : bool) (evs : list ev) : bool := wf_evs so (rev evs).
