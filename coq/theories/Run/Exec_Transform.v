(** Executable entry point for the L2 transformation. No proofs. *)
From Coq Require Import List Arith Bool.
Import ListNotations.
From UJ Require Import Engine.Engine Base.Graph Cache.Prune Cache.Transform.

Definition key_of (t : nat * nat * nat) : ekey :=
  let '(k, a, b) := t in match k with 0 => KPos a | 1 => KKw a b | _ => KDep end.
Definition enc_key (k : ekey) : list nat :=
  match k with KPos i => [0; i; 0] | KKw n i => [1; n; i] | KDep => [2; 0; 0] end.

Definition mkp (ns : list (nat * bool)) (es : list (nat * nat * (nat * nat * nat))) : pgraph :=
  {| pnodes := map fst ns;
     pkind := fun n => match find (fun nb => fst nb =? n) ns with Some (_, true) => KLit | _ => KCall end;
     pedges := map (fun t => let '(a, b, k) := t in {| esrc := a; edst := b; ekind := key_of k |}) es |}.

(** [nodes...; 999; (src dst k a b)...; 999; output flag, output] *)
Definition exec_physical (ns : list (nat * bool)) (es : list (nat * nat * (nat * nat * nat)))
           (c : nat) (entries : list (nat * bool * bool)) (output : option nat) : list nat :=
  let p := mkp ns es in
  let ents := map (fun t => let '(n, s, st) := t in {| enode := n; esource := s; estale := st |}) entries in
  let '(q, out) := physical p c ents output in
  pnodes q ++ [999] ++ flat_map (fun e => esrc e :: edst e :: enc_key (ekind e)) (pedges q) ++ [999] ++
  match out with Some o => [1; o] | None => [0; 0] end.
