(** Executable entry points for the L1 cache model (flat Z encodings). No proofs. *)
From Coq Require Import List Arith ZArith Bool.
Import ListNotations.
From UJ Require Import Cache.Logical.
Local Open Scope Z_scope.

(** concrete deterministic call functions used on both sides of the correspondence *)
Definition Fconc (f : nat) (xs : list Z) : Z :=
  (Z.of_nat f * 1000003 + fold_left (fun a x => (a * 31 + x) mod 1000000007) xs 7) mod 1000000007.

Definition mknode (t : bool * nat * Z * list nat * list nat) : node :=
  let '(c, f, v, a, d) := t in {| is_call := c; fn := f; litv := v; args := a; deps := d |}.
Definition mkreg (l : list (option (nat * bool))) : registry :=
  fun i => match nth i l None with Some (s, b) => Some {| store := s; is_src := b |} | None => None end.
Definition mksg (l : list (option (Z * Z))) : sstate := fun s => nth s l None.

Definition b2z (b : bool) : Z := if b then 1 else 0.
Definition oz (o : option Z) : list Z := match o with Some v => [1; v] | None => [0; 0] end.

(** [stale bits; -1; exec bits; -1; read bits; -1; written bits; -1; output (flag,value); -1;
     per store: content after the run (flag,value); -1; per node value (flag, value)] *)
Definition exec_cache (pl : list (bool * nat * Z * list nat * list nat))
           (rl : list (option (nat * bool))) (sl : list (option (Z * Z)))
           (fresh : option Z) (output : option nat) : list Z :=
  let p := map mknode pl in
  let reg := mkreg rl in
  let sg := mksg sl in
  let idx := seq 0 (length p) in
  let sg' := after_run Fconc reg sg fresh p (fun i => 1000000 + Z.of_nat i) in
  map (fun i => b2z (is_stale reg sg fresh p i)) idx ++ [-1] ++
  map (fun i => b2z (is_exec reg sg fresh output p i)) idx ++ [-1] ++
  map (fun i => b2z (is_read reg sg fresh output p i)) idx ++ [-1] ++
  map (fun i => b2z (is_written reg sg fresh p i)) idx ++ [-1] ++
  oz (run_output Fconc reg sg fresh output p) ++ [-1] ++
  flat_map (fun s => oz (content sg' s)) (seq 0 (length sl)) ++ [-1] ++
  flat_map (fun i => oz (value_of Fconc reg sg fresh p i)) idx.

Definition exec_scratch (pl : list (bool * nat * Z * list nat * list nat))
           (rl : list (option (nat * bool))) (sl : list (option (Z * Z))) : list Z :=
  let p := map mknode pl in
  flat_map (fun i => oz (scratch Fconc (mkreg rl) (mksg sl) p i)) (seq 0 (length p)).

From UJ Require Import Cache.Link.
Definition exec_link (pl : list (bool * nat * Z * list nat * list nat))
           (rl : list (option (nat * bool))) (sl : list (option (Z * Z)))
           (fresh : option Z) (output : option nat) : list nat :=
  link_mismatches (mkreg rl) (mksg sl) fresh output (map mknode pl).
