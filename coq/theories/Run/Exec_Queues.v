(** Flat executable entry points for harness/queues_corr.py. No proofs.
    An op is [(0, x, i)] = put x (i = the recorded randrange result, RandomQueue only) or [(1, _, _)] = get.
    Output: one number per op (put: qsize after; get: item + 1, or 0 when the model's queue is empty;
    a put outside randrange's contract ends the trace with 777), then 999, then the final contents. *)
From Coq Require Import List Arith Bool.
Import ListNotations.
From UJ Require Import Engine.Engine Engine.Queues.

Definition op := (nat * nat * nat)%type.

Fixpoint drive {St : Type} (put : nat -> nat -> St -> option St) (get : St -> option (nat * St))
         (size : St -> nat) (contents : St -> list nat) (ops : list op) (s : St) : list nat :=
  match ops with
  | [] => 999 :: contents s
  | (0, x, i) :: rest =>
      match put i x s with
      | Some s' => size s' :: drive put get size contents rest s'
      | None => [777]
      end
  | (_, _, _) :: rest =>
      match get s with
      | Some (y, s') => S y :: drive put get size contents rest s'
      | None => 0 :: drive put get size contents rest s
      end
  end.

Definition exec_fifo (init : list nat) (ops : list op) : list nat :=
  q_unfinished0 (fifo_init init) ::
  drive (fun _ x l => Some (fifo_put x l)) fifo_get q_size (fun l => l) ops (fifo_init init).

(** [shuffled] = the list left by random.shuffle in the constructor *)
Definition exec_rq (shuffled : list nat) (ops : list op) : list nat :=
  q_unfinished0 (rq_init shuffled) ::
  drive (fun i x l => rq_put i x l) rq_get q_size (fun l => l) ops (rq_init shuffled).

(** [table]: priority of item x is [nth x table 0] (already shifted so that DONE's -1 is 0) *)
Definition exec_pq (table : list nat) (init : list nat) (ops : list op) : list nat :=
  let prio := fun x => nth x table 0 in
  let h0 := pq_init ins_hify prio init in
  q_unfinished0 h0 ::
  drive (fun _ x h => Some (pq_put ins_push prio x h)) (pq_get ins_pop) q_size
        (fun h => flat_map (fun kv => [fst kv; snd kv]) h) ops h0.
