(** Executable entry point for harness/c16.py. No proofs. *)
From Coq Require Import List Arith Bool.
Import ListNotations.
From UJ Require Import Obs.RefGraph.

Definition mk_graph (args : list (list nat)) (o : option nat) (held : list (list nat)) : rgraph :=
  {| ncalls := length args;
     cargs := fun c => nth c args [];
     out := o;
     holds := fun c => nth c held [] |}.

Definition ev_of (p : nat * nat) : event :=
  match fst p with 0 => Start (snd p) | 1 => EndOk (snd p) | _ => EndFail (snd p) end.

Definition live_list (g : rgraph) (s : state) : list nat :=
  filter (live_b g s) (seq 0 (ncalls g)).

(** after every Start event: [1; c; number of live results; the live results]; an event the model
    does not allow yields [0; index] and stops *)
Fixpoint trace (g : rgraph) (s : state) (i : nat) (es : list (nat * nat)) : list nat :=
  match es with
  | [] => []
  | e :: r =>
      match step g s (ev_of e) with
      | None => [0; i]
      | Some s' =>
          (match fst e with
           | 0 => let l := live_list g s' in 1 :: snd e :: length l :: l
           | _ => []
           end) ++ trace g s' (S i) r
      end
  end.

Definition exec_trace (args : list (list nat)) (o : option nat) (held : list (list nat))
           (es : list (nat * nat)) : list nat :=
  let g := mk_graph args o held in
  trace g init 0 es ++ [2] ++ (let fix final (s : state) (es : list (nat * nat)) : state :=
                                  match es with
                                  | [] => s
                                  | e :: r => match step g s (ev_of e) with Some s' => final s' r | None => s end
                                  end in live_list g (final init es)).
