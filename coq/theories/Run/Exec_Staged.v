(** Executable entry point of Store/Staged.v for the correspondence harness (flat nat encodings). No proofs. *)
From Coq Require Import List Arith Bool ZArith.
Import ListNotations.
From UJ Require Import Store.FS Store.Staged.
Local Open Scope Z_scope.

(** fault kind: 0 none, 1 exception, 2 death before, 3 death after *)
Definition fault_of (kind i pre : nat) : fault :=
  match kind with
  | 0%nat => NoFault
  | 1%nat => Exc i pre
  | 2%nat => DieBefore i
  | _ => DieAfter i
  end.

Definition TARGET : path := 0%nat.
Definition STAGING : path := 1%nat.

Definition init_state (old leftover : option bytes) : state :=
  mkState (upd (upd empty_fs TARGET (option_map (fun b => (b, 5)) old))
               STAGING (option_map (fun b => (b, 7)) leftover))
          None 10.

Definition res_code (r : res) : nat := match r with Ok => 0 | Exn => 1 | Dead => 2 end.

Definition flag (b : bool) : nat := if b then 1%nat else 0%nat.

Definition opt_eqb (a b : option Z) : bool :=
  match a, b with
  | None, None => true
  | Some x, Some y => Z.eqb x y
  | _, _ => false
  end.

(** [outcome; staging exists; target exists; target mtime changed; |target|] ++ target ++ staging content *)
Definition exec_write (fixed : bool) (old leftover : option bytes) (chunks : list bytes) (ser_ok : bool)
           (kind i pre : nat) : list nat :=
  let s := init_state old leftover in
  let r := staged_write fixed (fault_of kind i pre) STAGING TARGET chunks ser_ok s in
  let s' := fst r in
  let tgt := match read_file s' TARGET with Some b => b | None => [] end in
  let stg := match read_file s' STAGING with Some b => b | None => [] end in
  [ res_code (snd r);
    flag (match files s' STAGING with Some _ => true | None => false end);
    flag (match files s' TARGET with Some _ => true | None => false end);
    flag (negb (opt_eqb (mtime_of s' TARGET) (mtime_of s TARGET)));
    length tgt ] ++ tgt ++ stg.
