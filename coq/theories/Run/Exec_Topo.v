(** Flat executable entry points for harness/topo_corr.py. No proofs. *)
From Coq Require Import List Arith Bool.
Import ListNotations.
From UJ Require Import Engine.Engine Base.Topo.

Definition mkgraph (ns : list nat) (es : list (nat * nat)) : graph := {| nodes := ns; edges := es |}.

(** [0; order...] = generator exhausted normally; [1] = nx.HasACycle; [2] = KNeg; [3] = KFuel *)
Definition exec_kahn (ns : list nat) (es : list (nat * nat)) : list nat :=
  match kahn_run (mkgraph ns es) with
  | KOk l => 0 :: l
  | KCycle => [1]
  | KNeg => [2]
  | KFuel => [3]
  end.

(** [1; visited...] ; [0] = a source is not a node (NetworkXError); [2] = out of fuel *)
Definition exec_ancestors (ns : list nat) (es : list (nat * nat)) (srcs : list nat) : list nat :=
  let g := mkgraph ns es in
  if forallb (fun s => inb s ns) srcs then
    match all_ancestors_fuel g srcs with Some v => 1 :: v | None => [2] end
  else [0].

(** predecessor_count for every node, in [ns] order, followed by is_source flags *)
Definition exec_pcounts (ns : list nat) (es : list (nat * nat)) : list nat :=
  let g := mkgraph ns es in
  map (pcount g) ns ++ map (fun n => if is_source g n then 1 else 0) ns.

(** adjacency in networkx order: for each node [len succ; succ...; len pred; pred...] *)
Definition exec_adj (ns : list nat) (es : list (nat * nat)) : list nat :=
  let g := mkgraph ns es in
  flat_map (fun n => (length (succs_first g n) :: succs_first g n) ++
                     (length (preds_first g n) :: preds_first g n)) ns.
