(** Executable entry points for harness/c15.py (flat Z encodings). No proofs. *)
From Coq Require Import List Arith ZArith Bool.
Import ListNotations.
From UJ Require Import Obs.Progress Obs.Notify.
Local Open Scope Z_scope.

Definition zn (n : nat) : Z := Z.of_nat n.
Definition flat_key (k : key) : list Z := zn (fst k) :: zn (length (snd k)) :: map zn (snd k).

(** Enter 0 | Total 1 key amount | Running 2 key | Completed 3 key | Failed 4 key | Exit 5 *)
Definition flat_note (n : note) : list Z :=
  match n with
  | Enter => [0]
  | Total k a => 1 :: flat_key k ++ [a]
  | Running k => 2 :: flat_key k
  | Completed k => 3 :: flat_key k
  | Failed k => 4 :: flat_key k
  | Exit => [5]
  end.

(** plan rows: (id, kind, scope, fn, store) with kind 0 = literal, 1 = call without store, 2 = call with store *)
Definition mk_node (r : nat * nat * list nat * nat * nat) : nat * nodekind :=
  let '(n, kd, sc, fn, st) := r in
  (n, match kd with
      | 0%nat => NLit
      | 1%nat => NCall {| c_scope := sc; c_fn := fn; c_store := None |}
      | _ => NCall {| c_scope := sc; c_fn := fn; c_store := Some st |}
      end).

(** trace rows: (node, code) with code 0 = start, 1 = end ok, 2 = end with exception *)
Definition mk_eev (r : nat * nat) : eev :=
  match snd r with 0%nat => EStart (fst r) | 1%nat => EEnd (fst r) true | _ => EEnd (fst r) false end.

Definition mk_cfg (reg : bool) (lg : list (nat * nat * list nat * nat * nat)) (tr0 : list (nat * nat))
           (other : bool) (ph : list (nat * nat * list nat * nat * nat)) (dry : bool) (tr1 : list (nat * nat)) : runcfg :=
  {| has_registry := reg; logical := map mk_node lg; stale_trace := map mk_eev tr0; other_raises := other;
     physical := map mk_node ph; dry_run := dry; run_trace := map mk_eev tr1 |}.

(** [wf_run; trace_ok stale; trace_ok run; notes...] *)
Definition exec_emit (reg : bool) lg tr0 (other : bool) ph (dry : bool) tr1 : list Z :=
  let c := mk_cfg reg lg tr0 other ph dry tr1 in
  (if wf_run (emit c) then 1 else 0) ::
  (if trace_ok_rev (map fst (logical c)) (rev (stale_trace c)) then 1 else 0) ::
  (if trace_ok_rev (map fst (physical c)) (rev (run_trace c)) then 1 else 0) ::
  flat_map flat_note (emit c).

(** the model's wf on a recorded sequence given in the same encoding *)
Fixpoint take_scope (n : nat) (l : list Z) : list nat * list Z :=
  match n, l with
  | S m, x :: r => let (a, b) := take_scope m r in (Z.to_nat x :: a, b)
  | _, _ => ([], l)
  end.

Fixpoint parse_notes (fuel : nat) (l : list Z) : list note :=
  match fuel with
  | O => []
  | S fu =>
      match l with
      | 0 :: r => Enter :: parse_notes fu r
      | 5 :: r => Exit :: parse_notes fu r
      | c :: s :: n :: r =>
          let (sc, r') := take_scope (Z.to_nat n) r in
          let k := (Z.to_nat s, sc) in
          if c =? 1 then match r' with a :: r'' => Total k a :: parse_notes fu r'' | [] => [] end
          else if c =? 2 then Running k :: parse_notes fu r'
          else if c =? 3 then Completed k :: parse_notes fu r'
          else Failed k :: parse_notes fu r'
      | _ => []
      end
  end.

Definition exec_wf_run (l : list Z) : bool := wf_run (parse_notes (length l) l).

(** composite: MEnter 0 i | MEnterRaised 1 i | MNote 2 i note | MExit 3 i *)
Definition flat_mev (e : mev) : list Z :=
  match e with
  | MEnter i => [0; zn i]
  | MEnterRaised i => [1; zn i]
  | MNote i n => 2 :: zn i :: flat_note n
  | MExit i => [3; zn i]
  end.

Definition exec_composite (raises : list bool) (body : list Z) : list Z :=
  flat_map flat_mev (composite_run raises (parse_notes (length body) body)).
