(** Executable entry points for harness/c02.py (flat Z encodings). No proofs.
    A program is a list of public-API statements; node handles are the model's node numbers (the
    harness numbers the real nodes in completion order, see Plan/Gather.v). *)
From Coq Require Import List Arith ZArith Bool.
Import ListNotations.
From UJ Require Import Plan.Values Plan.Gather Plan.Eval.
Local Open Scope Z_scope.

Inductive stmt :=
| StCall (f : nat) (args : list sval) (kwargs : list (nat * sval))   (* plan.call(fn_f, *args, **kwargs) *)
| StLit (v : sval)                                                   (* plan.lit(v): stored as is *)
| StGather (v : sval)                                                (* plan.gather(v) *)
| StUnpack (v : sval) (n : nat).                                     (* plan.unpack(v, n) *)

Definition exec_stmt (g : graph) (s : stmt) : graph :=
  match s with
  | StCall f args kwargs => fst (call g (FUser f) args kwargs)
  | StLit v => fst (add_lit g (freeze v))
  | StGather v => fst (gather g v)
  | StUnpack v n => fst (plan_unpack g v n)
  end.

Definition build_prog (p : list stmt) : graph := fold_left exec_stmt p empty_graph.

(** ---- the concrete user functions the harness runs (same definitions in harness/c02.py) ---- *)
Definition M : Z := 1000003.

Definition kcode (k : ckind) : Z :=
  match k with CList => 1 | CTuple => 2 | CSet => 3 | CDict => 4 | COpaque => 5 end.

(** structural digest that ignores identities; order-insensitive for sets *)
Fixpoint dg (v : val) : Z :=
  match v with
  | Atom _ p => p mod M
  | VCont k _ items =>
      let ds := map dg items in
      match k with
      | CSet => (kcode k + fold_left Z.add ds 0) mod M
      | _ => fold_left (fun acc d => (acc * 31 + d) mod M) ds (kcode k)
      end
  end.

Definition dgs (f : nat) (args : list val) (kwargs : list (nat * val)) : Z :=
  let a := fold_left (fun acc d => (acc * 37 + d) mod M) (map dg args) (Z.of_nat f) in
  fold_left (fun acc nv => (acc * 41 + Z.of_nat (fst nv) * 13 + dg (snd nv)) mod M) kwargs a.

(** function code f = 8 * serial + kind *)
Definition interp (f : nat) (args : list val) (kwargs : list (nat * val)) : option val :=
  let all := args ++ map snd kwargs in
  match Nat.modulo f 8 with
  | 1%nat => Some (VCont CList (2000 + f) all)
  | 2%nat => match args with a :: _ => Some a | [] => Some (Atom 0 (Z.of_nat f)) end
  | 3%nat => Some (VCont CTuple (2000 + f) all)
  | 4%nat => None
  | 5%nat => match args with _ :: b :: _ => Some b | a :: _ => Some a | [] => Some (Atom 0 (Z.of_nat f)) end
  | 6%nat => if Z.eqb ((dgs f args kwargs) mod 7) 0 then None else Some (Atom 0 (dgs f args kwargs))
  | _ => Some (Atom 0 (dgs f args kwargs))
  end.

(** ---- flat encodings ---- *)
Fixpoint enc (v : val) : list Z :=
  match v with
  | Atom i p => [0; Z.of_nat i; p]
  | VCont k i items => [kcode k; Z.of_nat i; Z.of_nat (length items)] ++ flat_map enc items
  end.

Definition enc_opt (o : option val) : list Z :=
  match o with None => [-1] | Some v => 1 :: enc v end.

Definition enc_fn (f : fn) : list Z :=
  match f with
  | FUser u => [1; Z.of_nat u]
  | FGather k => [2; kcode k]
  | FUnpack => [3; 0]
  | FGetItem => [4; 0]
  end.

Definition enc_node (k : nkind) : list Z :=
  match k with
  | KLit v => 0 :: enc v
  | KCall f => enc_fn f
  end.

Definition enc_edge (e : edge) : list Z :=
  match key e with
  | Pos i => [Z.of_nat (src e); Z.of_nat (dst e); 0; Z.of_nat i; 0]
  | Kw name i => [Z.of_nat (src e); Z.of_nat (dst e); 1; Z.of_nat i; Z.of_nat name]
  end.

Definition enc_graph (g : graph) : list Z :=
  [Z.of_nat (length (nodes g))] ++ flat_map enc_node (nodes g) ++
  [Z.of_nat (length (edges g))] ++ flat_map enc_edge (edges g).

Definition enc_received (r : option (list val * list (nat * val))) : list Z :=
  match r with
  | None => [-1]
  | Some (vs, kvs) =>
      [Z.of_nat (length vs)] ++ flat_map enc vs ++
      [Z.of_nat (length kvs)] ++ flat_map (fun nv => Z.of_nat (fst nv) :: enc (snd nv)) kvs
  end.

Definition b2z (b : bool) : Z := if b then 1 else 0.

(** nodes [out] needs (arguments have smaller numbers: one descending pass) *)
Fixpoint needed_from (g : graph) (k : nat) (acc : list nat) : list nat :=
  match k with
  | O => acc
  | S m => needed_from g m (if existsb (Nat.eqb m) acc then arg_nodes g m ++ acc else acc)
  end.
Definition needed (g : graph) (out : nat) : list nat := needed_from g (size g) [out].

Definition enc_order (g : graph) (out : nat) (order : list nat) : list Z :=
  let nd := needed g out in
  [b2z (after_args g [] order);
   b2z (forallb (fun n => existsb (Nat.eqb n) nd) order);
   b2z (negb (is_call g out) || existsb (Nat.eqb out) order)] ++
  enc_opt (run_result interp g order out).

(** One case: the program, the output specification, the observed execution orders.
    [graph after the program] ++ [-1] (no output) or
    [out node] ++ [wf, closed flags] ++ [graph after gather(output)] ++ [val_of out] ++
      per order [after_args; only needed; out present; run_result] ++
      per node of the final graph [received]. *)
Definition exec_case (p : list stmt) (out : option sval) (orders : list (list nat)) : list Z :=
  let g := build_prog p in
  enc_graph g ++
  match out with
  | None => [-1] ++ flat_map (fun c => enc_received (received interp g c)) (seq 0 (size g))
  | Some o =>
      let '(g', r) := gather g o in
      [Z.of_nat r; b2z (wf g); b2z (closed (size g) o)] ++ enc_graph g' ++ enc_opt (val_of interp g' r) ++
      enc_opt (subst (val_of interp g) o) ++
      flat_map (enc_order g' r) orders ++
      flat_map (fun c => enc_received (received interp g' c)) (seq 0 (size g'))
  end.
