(** Executable entry point for harness/retry_corr.py. No proofs. *)
From Coq Require Import List Arith ZArith Bool.
Import ListNotations.
From UJ Require Import Engine.Retry.
Local Open Scope Z_scope.

(** outcomes of the attempts as (code, payload): 0 = value, 1 = retryable exception id, 2 = other exception id;
    attempts beyond the list succeed with value 0 (never reached in generated cases) *)
Definition outcome_of (l : list (Z * Z)) (k : nat) : outcome :=
  match nth_error l k with
  | Some (0, v) => OOk v
  | Some (1, e) => ExcRetryable (Z.to_nat e)
  | Some (_, e) => ExcOther (Z.to_nat e)
  | None => OOk 0
  end.

(** [kind; payload; attempts made] with kind 0 = returned value, 1 = raised exception id, 2 = None, 3 = ValueError *)
Definition exec_retry (attempts : Z) (l : list (Z * Z)) : list Z :=
  let (r, a) := retry_call attempts (outcome_of l) in
  match r with
  | ROk v => [0; v; Z.of_nat a]
  | RRaise e => [1; Z.of_nat e; Z.of_nat a]
  | RNone => [2; 0; Z.of_nat a]
  | RValueError => [3; 0; Z.of_nat a]
  end.
