#!/bin/bash
# Offline build of the whole Coq development (full .vo, no -vos).
cd "$(dirname "$0")"
mkdir -p build evidence/replays
/venv/bin/python - <<'PY'
import sys; sys.path.insert(0, "harness")
import core
ok, log = core.build_coq()
print(log[-3000:])
sys.exit(0 if ok else 1)
PY
